#!/usr/bin/env python3
"""Writes MANIFEST.json from the table of claimed checks in vprops.py plus the
not-applicable list. Run after changing either."""
import json, os, sys
sys.path.insert(0, os.path.dirname(os.path.abspath(__file__)))
from vprops import PROPS, MANIFEST_TEXT, NOT_APPLICABLE

checks = []
for pid in sorted(PROPS):
    t = MANIFEST_TEXT[pid]
    checks.append({
        "property_id": pid,
        "quick_cmd": "./vcheck check %s quick" % pid,
        "thorough_cmd": "./vcheck check %s thorough" % pid,
        "evidence_file": "/verif/evidence/%s.json" % pid,
        "replay_cmd_template": "./vcheck replay {path}",
        "engine": PROPS[pid]["engine"],
        "level_claimed": {"category": PROPS[pid]["level"], "text": t["level_text"], "design_ref": t["design_ref"]},
        "level_note": t["level_note"],
        "technique": t["technique"],
    })
m = {
    "version": 1,
    "setup_cmd": "./vcheck warm",
    "hooks": {
        "guard": "none (no source hooks): the seams are reached by rewriting the import paths of os, path/filepath and io/ioutil in a scratch copy of /repo",
        "enable": "./vcheck copies /repo's working tree to /dev/shm, rewrites those imports to /verif/sim/simos etc., overlays /verif/sim as <module>/vsim and builds with go1.26.8 (GOTOOLCHAIN=local)",
        "baseline_off_cmd": "cd /repo && go test -vet=off -count=1 ./...",
        "source_commits": [],
        "add_only": True,
    },
    "engines": [
        {"name": "wdsim", "path": "/verif/sim/wdsim", "serves_properties": sorted(p for p in PROPS if PROPS[p]["engine"] == "wdsim"),
         "kind_free_text": "deterministic simulation of webdav.Client -> transport -> webdav.Handler -> LocalFileSystem -> disk seam inside a testing/synctest bubble; plans are pure data, seeded, minimised and replayable"},
        {"name": "davsim", "path": "/verif/sim/davsim", "serves_properties": sorted(p for p in PROPS if PROPS[p]["engine"] == "davsim"),
         "kind_free_text": "deterministic simulation of the CalDAV/CardDAV/WebDAV clients and handlers over recording in-memory backends with stream, status and dependency fault injection"},
    ],
    "checks": checks,
    "notes": "All checks: exit 0 = held on everything explored, 1 = VIOLATION line with a minimised replay file, 2 = build/harness trouble (never disguised). VERIF_SEED selects the seed; every run seed is derived from it. See DESIGN.md.",
    "not_applicable": NOT_APPLICABLE,
}
m["engines"] = [e for e in m["engines"] if e["serves_properties"]]
json.dump(m, open(os.path.join(os.path.dirname(os.path.abspath(__file__)), "MANIFEST.json"), "w"), indent=1)
print("MANIFEST.json written:", [c["property_id"] for c in checks])
