//go:build go1.25

// Package simfilepath stands in for path/filepath in the scratch copy: pure
// functions are re-exported, the ones that read the file system (Walk,
// WalkDir, Glob, EvalSymlinks) go through the simos seam.
package simfilepath

import (
	"io/fs"
	realfp "path/filepath"
	"sort"
	"strings"

	os "github.com/emersion/go-webdav/vsim/simos"
)

const (
	ListSeparator = realfp.ListSeparator
	Separator     = realfp.Separator
)

type WalkFunc = realfp.WalkFunc

var (
	ErrBadPattern = realfp.ErrBadPattern
	SkipAll       = realfp.SkipAll
	SkipDir       = realfp.SkipDir
)

func Abs(path string) (string, error)          { return realfp.Abs(path) }
func Base(path string) string                  { return realfp.Base(path) }
func Clean(path string) string                 { return realfp.Clean(path) }
func Dir(path string) string                   { return realfp.Dir(path) }
func Ext(path string) string                   { return realfp.Ext(path) }
func FromSlash(path string) string             { return realfp.FromSlash(path) }
func HasPrefix(p, prefix string) bool          { return realfp.HasPrefix(p, prefix) }
func IsAbs(path string) bool                   { return realfp.IsAbs(path) }
func IsLocal(path string) bool                 { return realfp.IsLocal(path) }
func Join(elem ...string) string               { return realfp.Join(elem...) }
func Localize(path string) (string, error)     { return realfp.Localize(path) }
func Match(pattern, name string) (bool, error) { return realfp.Match(pattern, name) }
func Rel(basepath, targpath string) (string, error) {
	return realfp.Rel(basepath, targpath)
}
func Split(path string) (dir, file string) { return realfp.Split(path) }
func SplitList(path string) []string       { return realfp.SplitList(path) }
func ToSlash(path string) string           { return realfp.ToSlash(path) }
func VolumeName(path string) string        { return realfp.VolumeName(path) }

// EvalSymlinks is passed through after a seam call on the path.
func EvalSymlinks(path string) (string, error) {
	if _, err := os.Lstat(path); err != nil {
		return "", err
	}
	return realfp.EvalSymlinks(path)
}

// Glob mirrors path/filepath.Glob of the Go distribution, on top of simos (so
// that every directory it reads passes the disk seam).
func Glob(pattern string) (matches []string, err error) {
	if _, err := Match(pattern, ""); err != nil {
		return nil, err
	}
	if !hasMeta(pattern) {
		if _, err = os.Lstat(pattern); err != nil {
			return nil, nil
		}
		return []string{pattern}, nil
	}
	dir, file := Split(pattern)
	dir = cleanGlobPath(dir)
	if !hasMeta(dir) {
		return glob(dir, file, nil)
	}
	if dir == pattern {
		return nil, ErrBadPattern
	}
	m, err := Glob(dir)
	if err != nil {
		return
	}
	for _, d := range m {
		matches, err = glob(d, file, matches)
		if err != nil {
			return
		}
	}
	return
}

func cleanGlobPath(path string) string {
	switch path {
	case "":
		return "."
	case string(Separator):
		return path
	default:
		return path[0 : len(path)-1]
	}
}

func glob(dir, pattern string, matches []string) (m []string, e error) {
	m = matches
	fi, err := os.Stat(dir)
	if err != nil {
		return
	}
	if !fi.IsDir() {
		return
	}
	names, err := readDirNames(dir)
	if err != nil {
		return
	}
	for _, n := range names {
		matched, err := Match(pattern, n)
		if err != nil {
			return m, err
		}
		if matched {
			m = append(m, Join(dir, n))
		}
	}
	return
}

func hasMeta(path string) bool { return strings.ContainsAny(path, `*?[\\`) }

func readDirNames(dirname string) ([]string, error) {
	f, err := os.Open(dirname)
	if err != nil {
		return nil, err
	}
	names, err := f.Readdirnames(-1)
	f.Close()
	if err != nil {
		return nil, err
	}
	sort.Strings(names)
	return names, nil
}

// walk mirrors path/filepath.walk of the Go distribution, on top of simos.
func walk(path string, info fs.FileInfo, walkFn WalkFunc) error {
	if !info.IsDir() {
		return walkFn(path, info, nil)
	}

	names, err := readDirNames(path)
	err1 := walkFn(path, info, err)
	if err != nil || err1 != nil {
		return err1
	}

	for _, name := range names {
		filename := Join(path, name)
		fileInfo, err := os.Lstat(filename)
		if err != nil {
			if err := walkFn(filename, fileInfo, err); err != nil && err != SkipDir {
				return err
			}
		} else {
			err = walk(filename, fileInfo, walkFn)
			if err != nil {
				if !fileInfo.IsDir() || err != SkipDir {
					return err
				}
			}
		}
	}
	return nil
}

func Walk(root string, fn WalkFunc) error {
	info, err := os.Lstat(root)
	if err != nil {
		err = fn(root, nil, err)
	} else {
		err = walk(root, info, fn)
	}
	if err == SkipDir || err == SkipAll {
		return nil
	}
	return err
}

func walkDir(path string, d fs.DirEntry, walkDirFn fs.WalkDirFunc) error {
	if err := walkDirFn(path, d, nil); err != nil || !d.IsDir() {
		if err == SkipDir && d.IsDir() {
			err = nil
		}
		return err
	}

	dirs, err := os.ReadDir(path)
	if err != nil {
		err = walkDirFn(path, d, err)
		if err != nil {
			if err == SkipDir && d.IsDir() {
				err = nil
			}
			return err
		}
	}

	for _, d1 := range dirs {
		path1 := Join(path, d1.Name())
		if err := walkDir(path1, d1, walkDirFn); err != nil {
			if err == SkipDir {
				break
			}
			return err
		}
	}
	return nil
}

func WalkDir(root string, fn fs.WalkDirFunc) error {
	info, err := os.Lstat(root)
	if err != nil {
		err = fn(root, nil, err)
	} else {
		err = walkDir(root, fs.FileInfoToDirEntry(info), fn)
	}
	if err == SkipDir || err == SkipAll {
		return nil
	}
	return err
}
