//go:build go1.25

// Package rt is the run-time of the simulator: the PRNG every choice is drawn
// from, the synctest bubble runner with deadlock detection, and small helpers.
package rt

// Rand is a splitmix64 generator. It is written out here (not math/rand) so a
// toolchain change can never change what a seed means.
type Rand struct{ s uint64 }

func NewRand(seed uint64) *Rand { return &Rand{s: seed} }

func (r *Rand) Uint64() uint64 {
	r.s += 0x9e3779b97f4a7c15
	z := r.s
	z = (z ^ (z >> 30)) * 0xbf58476d1ce4e5b9
	z = (z ^ (z >> 27)) * 0x94d049bb133111eb
	return z ^ (z >> 31)
}

// Mix derives an independent seed from a seed and a list of labels.
func Mix(seed uint64, labels ...uint64) uint64 {
	r := Rand{s: seed}
	x := r.Uint64()
	for _, l := range labels {
		r.s = x ^ (l * 0xd6e8feb86659fd93)
		x = r.Uint64()
	}
	return x
}

// MixS mixes a string label into a seed.
func MixS(seed uint64, label string) uint64 {
	h := uint64(1469598103934665603)
	for i := 0; i < len(label); i++ {
		h ^= uint64(label[i])
		h *= 1099511628211
	}
	return Mix(seed, h)
}

func (r *Rand) Fork(label uint64) *Rand { return NewRand(Mix(r.Uint64(), label)) }

// Intn returns a value in [0,n). n must be > 0.
func (r *Rand) Intn(n int) int {
	if n <= 0 {
		panic("rt.Rand.Intn: n <= 0")
	}
	return int(r.Uint64() % uint64(n))
}

// Range returns a value in [lo,hi].
func (r *Rand) Range(lo, hi int) int {
	if hi <= lo {
		return lo
	}
	return lo + r.Intn(hi-lo+1)
}

func (r *Rand) Float() float64 { return float64(r.Uint64()>>11) / (1 << 53) }

// Chance is true with probability p.
func (r *Rand) Chance(p float64) bool { return r.Float() < p }

func Pick[T any](r *Rand, xs []T) T { return xs[r.Intn(len(xs))] }

// Weighted picks an index with probability proportional to its weight.
func (r *Rand) Weighted(w []int) int {
	tot := 0
	for _, x := range w {
		tot += x
	}
	if tot <= 0 {
		return 0
	}
	k := r.Intn(tot)
	for i, x := range w {
		if k < x {
			return i
		}
		k -= x
	}
	return len(w) - 1
}

func (r *Rand) Bytes(n int) []byte {
	b := make([]byte, n)
	for i := 0; i < n; i += 8 {
		x := r.Uint64()
		for j := 0; j < 8 && i+j < n; j++ {
			b[i+j] = byte(x >> (8 * j))
		}
	}
	return b
}
