//go:build go1.25

package rt

import (
	"fmt"
	"os"
	"runtime"
	"strings"
	"sync/atomic"
	"testing"
	"testing/synctest"
	"time"
)

// BubbleResult says how a bubble ended.
type BubbleResult struct {
	Panic     any    // panic value that escaped f (not a deadlock)
	PanicText string // panic value + stack
	Deadlock  bool   // every goroutine of the bubble was durably blocked before f returned
	Leftover  bool   // f returned but blocked goroutines remained
	Stuck     bool   // the bubble made no progress for StuckAfter of real time (e.g. a goroutine waits for a sync.Mutex held by one that sleeps on the fake clock: not a durable block, so the bubble can neither advance its clock nor report a deadlock)
	Stacks    string // all goroutine stacks at the moment of the deadlock/leftover
}

// Bubble runs f inside a synctest bubble (fake clock starting at
// 2000-01-01T00:00:00Z, advancing only at quiescence) and turns the two
// deadlock panics of the bubble into a result instead of a crash.
func Bubble(t *testing.T, f func()) (res BubbleResult) {
	// synctest.Test calls t.FailNow (runtime.Goexit) when the bubble's *T
	// failed, which the testing package also arranges when the race detector
	// reported something during the bubble. The worker must survive that, so
	// the bubble is started from a goroutine of its own.
	done := make(chan struct{})
	go func() {
		defer close(done)
		defer func() {
			if r := recover(); r != nil {
				s := fmt.Sprint(r)
				switch {
				case strings.Contains(s, "all goroutines in bubble are blocked"):
					res.Deadlock = true
					res.Stacks = AllStacks()
				case strings.Contains(s, "blocked goroutines remain"):
					res.Leftover = true
					res.Stacks = AllStacks()
				default:
					res.Panic = r
					res.PanicText = s
				}
			}
		}()
		synctest.Test(t, func(t *testing.T) {
			defer func() {
				if r := recover(); r != nil {
					buf := make([]byte, 1<<16)
					buf = buf[:runtime.Stack(buf, false)]
					res.Panic = r
					res.PanicText = fmt.Sprintf("%v\n%s", r, buf)
				}
			}()
			f()
		})
	}()
	// A run is stuck when it showed no sign of life (Tick: a log line, a seam
	// call, a scheduling decision) for StuckAfter of real time - not when it is
	// merely slow because the machine is busy - or when it is still not done
	// after ten times that.
	start, last, seen := time.Now(), time.Now(), progress.Load()
	tick := time.NewTicker(500 * time.Millisecond)
	defer tick.Stop()
	for {
		select {
		case <-done:
			return res
		case <-tick.C:
		}
		if p := progress.Load(); p != seen {
			seen, last = p, time.Now()
		}
		if time.Since(last) < StuckAfter && time.Since(start) < 10*StuckAfter {
			continue
		}
		// The goroutines of the bubble stay behind; the caller must not start
		// another run in this process.
		st := AllStacks()
		if p := os.Getenv("VSIM_STUCK_DUMP"); p != "" {
			os.WriteFile(fmt.Sprintf("%s.%d", p, os.Getpid()), []byte(st), 0o644)
		}
		return BubbleResult{Stuck: true, Stacks: st}
	}
}

// StuckAfter is the real time without any sign of life after which a run
// counts as stuck.
var StuckAfter = 40 * time.Second

var progress atomic.Uint64

// Tick is called by the harness wherever a run shows that it is alive.
func Tick() { progress.Add(1) }

// Wait blocks until every other goroutine of the bubble is durably blocked.
func Wait() { synctest.Wait() }

// AllStacks returns the stacks of all goroutines.
func AllStacks() string {
	buf := make([]byte, 1<<20)
	for {
		n := runtime.Stack(buf, true)
		if n < len(buf) {
			return string(buf[:n])
		}
		buf = make([]byte, 2*len(buf))
	}
}

// LibraryGoroutines returns the stacks (one string per goroutine) that have a
// frame inside one of the go-webdav library packages (not the harness, which
// lives below .../vsim/).
func LibraryGoroutines(stacks string) []string {
	var out []string
	for _, g := range strings.Split(stacks, "\n\n") {
		if hasLibraryFrame(g) {
			out = append(out, g)
		}
	}
	return out
}

func hasLibraryFrame(g string) bool {
	for _, line := range strings.Split(g, "\n") {
		if !strings.HasPrefix(line, "github.com/emersion/go-webdav") {
			continue
		}
		if strings.HasPrefix(line, "github.com/emersion/go-webdav/vsim/") {
			continue
		}
		return true
	}
	return false
}
