//go:build go1.25

// Package model holds the executable reference models the simulator judges
// go-webdav against: an RFC 4918 resource tree with its request semantics, an
// RFC 3986 path normaliser and a strict, namespace-aware multi-status reader.
// Nothing here shares a type or a helper with go-webdav.
package model

import (
	"bytes"
	"encoding/xml"
	"fmt"
	"io"
	"strings"
)

// Elem is a namespace-expanded XML element.
type Elem struct {
	Space, Local string
	Attrs        []xml.Attr
	Text         string // concatenated character data directly inside the element
	Kids         []*Elem
}

func (e *Elem) Is(space, local string) bool { return e != nil && e.Space == space && e.Local == local }

func (e *Elem) Children(space, local string) []*Elem {
	var out []*Elem
	for _, k := range e.Kids {
		if k.Space == space && k.Local == local {
			out = append(out, k)
		}
	}
	return out
}

func (e *Elem) Child(space, local string) *Elem {
	for _, k := range e.Kids {
		if k.Space == space && k.Local == local {
			return k
		}
	}
	return nil
}

func (e *Elem) Name() string { return "{" + e.Space + "}" + e.Local }

// ParseXML reads one complete, well-formed document. Trailing non-space data
// or a second root is an error; so is a truncated document.
func ParseXML(b []byte) (*Elem, error) {
	d := xml.NewDecoder(bytes.NewReader(b))
	d.Strict = true
	var root *Elem
	var stack []*Elem
	for {
		tok, err := d.Token()
		if err == io.EOF {
			break
		}
		if err != nil {
			return nil, err
		}
		switch t := tok.(type) {
		case xml.StartElement:
			e := &Elem{Space: t.Name.Space, Local: t.Name.Local}
			for _, a := range t.Attr {
				if a.Name.Space == "xmlns" || (a.Name.Space == "" && a.Name.Local == "xmlns") {
					continue
				}
				e.Attrs = append(e.Attrs, a)
			}
			if len(stack) == 0 {
				if root != nil {
					return nil, fmt.Errorf("xml: more than one root element")
				}
				root = e
			} else {
				p := stack[len(stack)-1]
				p.Kids = append(p.Kids, e)
			}
			stack = append(stack, e)
		case xml.EndElement:
			if len(stack) == 0 {
				return nil, fmt.Errorf("xml: unbalanced end element")
			}
			stack = stack[:len(stack)-1]
		case xml.CharData:
			if len(stack) > 0 {
				stack[len(stack)-1].Text += string(t)
			} else if strings.TrimSpace(string(t)) != "" {
				return nil, fmt.Errorf("xml: character data outside the root element")
			}
		}
	}
	if len(stack) != 0 {
		return nil, fmt.Errorf("xml: document ends inside <%s>", stack[len(stack)-1].Local)
	}
	if root == nil {
		return nil, fmt.Errorf("xml: no root element")
	}
	return root, nil
}
