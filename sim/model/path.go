//go:build go1.25

package model

import "strings"

// Norm is the result of mapping a decoded URL path into the resource tree.
type Norm struct {
	Path    string // "/" or "/seg/seg" (no trailing slash, no dot or empty segments)
	OK      bool   // false: cannot be mapped below the root (no leading slash, NUL byte)
	Escapes bool   // a ".." segment tried to climb above the root (clamped, RFC 3986 5.2.4)
}

// Normalise maps the percent-decoded path of a request (as produced by the
// server's URL parser) to a resource path: RFC 3986 section 5.2.4 dot-segment
// removal, empty segments and the trailing slash dropped (RFC 4918 section
// 8.3 treats /a and /a/ as the same collection).
func Normalise(p string) Norm {
	if p == "" || p[0] != '/' || strings.IndexByte(p, 0) >= 0 {
		return Norm{}
	}
	var segs []string
	esc := false
	for _, s := range strings.Split(p, "/") {
		switch s {
		case "", ".":
		case "..":
			if len(segs) == 0 {
				esc = true
			} else {
				segs = segs[:len(segs)-1]
			}
		default:
			segs = append(segs, s)
		}
	}
	return Norm{Path: "/" + strings.Join(segs, "/"), OK: true, Escapes: esc}
}

func Parent(p string) string {
	if p == "/" {
		return "/"
	}
	i := strings.LastIndexByte(p, '/')
	if i <= 0 {
		return "/"
	}
	return p[:i]
}

func Base(p string) string {
	i := strings.LastIndexByte(p, '/')
	return p[i+1:]
}

func Join(dir, name string) string {
	if dir == "/" {
		return "/" + name
	}
	return dir + "/" + name
}

// IsAncestor reports whether a is a proper ancestor of b.
func IsAncestor(a, b string) bool {
	if a == b {
		return false
	}
	if a == "/" {
		return true
	}
	return strings.HasPrefix(b, a+"/")
}

func hexval(c byte) int {
	switch {
	case c >= '0' && c <= '9':
		return int(c - '0')
	case c >= 'a' && c <= 'f':
		return int(c-'a') + 10
	case c >= 'A' && c <= 'F':
		return int(c-'A') + 10
	}
	return -1
}

// PercentDecode decodes %XX escapes; ok is false on a malformed escape.
func PercentDecode(s string) (string, bool) {
	if strings.IndexByte(s, '%') < 0 {
		return s, true
	}
	var b strings.Builder
	for i := 0; i < len(s); i++ {
		if s[i] != '%' {
			b.WriteByte(s[i])
			continue
		}
		if i+2 >= len(s) {
			return "", false
		}
		h, l := hexval(s[i+1]), hexval(s[i+2])
		if h < 0 || l < 0 {
			return "", false
		}
		b.WriteByte(byte(h<<4 | l))
		i += 2
	}
	return b.String(), true
}

// Ref is a parsed URI reference as far as the tree cares: the decoded path
// and whether an authority was present.
type Ref struct {
	Path      string
	OK        bool // false: not an absolute URI with authority nor an absolute path, or bad escape
	Authority string
	HasAuth   bool
	EmptyPath bool // "scheme://host" with nothing after the authority
	HasQuery  bool
	HasFrag   bool
}

func isSchemeChar(c byte, first bool) bool {
	if c >= 'a' && c <= 'z' || c >= 'A' && c <= 'Z' {
		return true
	}
	if first {
		return false
	}
	return c >= '0' && c <= '9' || c == '+' || c == '-' || c == '.'
}

// TolerantDoubleSlash: an href or Destination without a scheme that starts
// with "//" is, by RFC 3986, a network-path reference (authority follows).
// go-webdav echoes the request path as the href, so a request for "//a"
// yields the href "//a"; the properties speak of hrefs "sent back as a request
// path", where "//a" is a path. With this switch on (the default) such a
// reference is read as a path.
var TolerantDoubleSlash = true

// ParseRef parses a Destination header value or an href: absolute-URI with an
// authority, a network-path reference, or an absolute path (RFC 3986).
func ParseRef(v string) Ref { return parseRef(v, false) }

// ParseHref reads an href of a multi-status the way it reads when "sent back
// as a request path": a scheme-less value starting with "//" is a path.
func ParseHref(v string) Ref { return parseRef(v, TolerantDoubleSlash) }

func parseRef(v string, tolerant bool) Ref {
	r := Ref{}
	if i := strings.IndexByte(v, '#'); i >= 0 {
		v = v[:i]
		r.HasFrag = true
	}
	if i := strings.IndexByte(v, '?'); i >= 0 {
		v = v[:i]
		r.HasQuery = true
	}
	rest := v
	if !strings.HasPrefix(rest, "/") {
		// needs a scheme
		i := 0
		for i < len(rest) && isSchemeChar(rest[i], i == 0) {
			i++
		}
		if i == 0 || i >= len(rest) || rest[i] != ':' {
			return r
		}
		rest = rest[i+1:]
		if !strings.HasPrefix(rest, "//") {
			return r
		}
	}
	if strings.HasPrefix(rest, "//") && rest == v && tolerant {
		// no scheme: read it the way a server reads a request-target, as a path
	} else if strings.HasPrefix(rest, "//") {
		rest = rest[2:]
		j := strings.IndexByte(rest, '/')
		if j < 0 {
			r.Authority, r.HasAuth, r.EmptyPath = rest, true, true
			rest = ""
		} else {
			r.Authority, r.HasAuth = rest[:j], true
			rest = rest[j:]
		}
	}
	if rest == "" {
		r.Path = "/"
		r.OK = r.HasAuth
		return r
	}
	p, ok := PercentDecode(rest)
	if !ok {
		return r
	}
	r.Path, r.OK = p, true
	return r
}
