//go:build go1.25

package model

import (
	"bytes"
	"fmt"
	"sort"
	"strings"
)

// Node is a resource: a collection or a byte string.
type Node struct {
	Dir  bool
	Data []byte
	Ver  int // unique per stored version (a PUT, COPY or MOVE makes new versions)

	// Values learned from the first response that announced them; from then on
	// every announcement for the unmodified version must repeat them.
	Tag        string // raw wire form, including the quotes
	LastMod    string // HTTP-date
	CType      string
	CTypeKnown bool
}

// Tree is the abstract RFC 4918 resource tree. Keys are normalised paths.
type Tree struct {
	N       map[string]*Node
	nextVer int
}

func NewTree() *Tree {
	t := &Tree{N: map[string]*Node{}}
	t.N["/"] = t.newNode(true, nil)
	return t
}

func (t *Tree) newNode(dir bool, data []byte) *Node {
	t.nextVer++
	return &Node{Dir: dir, Data: append([]byte(nil), data...), Ver: t.nextVer}
}

func (t *Tree) Clone() *Tree {
	c := &Tree{N: make(map[string]*Node, len(t.N)), nextVer: t.nextVer}
	for p, n := range t.N {
		m := *n
		c.N[p] = &m
	}
	return c
}

func (t *Tree) Get(p string) *Node { return t.N[p] }

func (t *Tree) ParentOK(p string) bool {
	if p == "/" {
		return true
	}
	n := t.N[Parent(p)]
	return n != nil && n.Dir
}

// Paths returns all paths in sorted order.
func (t *Tree) Paths() []string {
	out := make([]string, 0, len(t.N))
	for p := range t.N {
		out = append(out, p)
	}
	sort.Strings(out)
	return out
}

// Sub returns p and all its descendants, sorted.
func (t *Tree) Sub(p string) []string {
	var out []string
	for q := range t.N {
		if q == p || IsAncestor(p, q) {
			out = append(out, q)
		}
	}
	sort.Strings(out)
	return out
}

// Kids returns the direct members of p, sorted.
func (t *Tree) Kids(p string) []string {
	var out []string
	for q := range t.N {
		if q != p && q != "/" && Parent(q) == p {
			out = append(out, q)
		}
	}
	sort.Strings(out)
	return out
}

func (t *Tree) Remove(p string) {
	for _, q := range t.Sub(p) {
		delete(t.N, q)
	}
}

func (t *Tree) PutFile(p string, data []byte) { t.N[p] = t.newNode(false, data) }
func (t *Tree) Mkcol(p string)                { t.N[p] = t.newNode(true, nil) }

// Copy reproduces src at dst (which must not exist any more). deep=false
// copies only the bare collection.
func (t *Tree) Copy(src, dst string, deep bool) {
	for _, q := range t.Sub(src) {
		if q != src && !deep {
			continue
		}
		n := t.N[q]
		t.N[dst+strings.TrimPrefix(q, src)] = t.newNode(n.Dir, n.Data)
	}
	if src == "/" { // cannot happen (root is an ancestor of everything) but keep keys sane
		return
	}
}

// Shape is a content-free description used for coverage counting.
func (t *Tree) Shape() string {
	var b strings.Builder
	for _, p := range t.Paths() {
		n := t.N[p]
		if n.Dir {
			fmt.Fprintf(&b, "%s/;", p)
		} else {
			fmt.Fprintf(&b, "%s=%d;", p, len(n.Data))
		}
	}
	return b.String()
}

// Entry is one resource of a stored tree as read back from the backend.
type Entry struct {
	Dir  bool
	Data []byte
}

// Diff compares the model with a snapshot of the store (path -> entry, root
// included as "/") and describes the first few differences.
func (t *Tree) Diff(snap map[string]Entry) string {
	var diffs []string
	seen := map[string]bool{}
	for _, p := range t.Paths() {
		n := t.N[p]
		e, ok := snap[p]
		seen[p] = true
		switch {
		case !ok:
			diffs = append(diffs, fmt.Sprintf("model has %s, store does not", describe(p, n.Dir, n.Data)))
		case e.Dir != n.Dir:
			diffs = append(diffs, fmt.Sprintf("%s: model %s, store %s", p, kind(n.Dir), kind(e.Dir)))
		case !n.Dir && !bytes.Equal(e.Data, n.Data):
			diffs = append(diffs, fmt.Sprintf("%s: content differs (model %d bytes %q, store %d bytes %q)", p, len(n.Data), clip(n.Data), len(e.Data), clip(e.Data)))
		}
	}
	var extra []string
	for p := range snap {
		if !seen[p] {
			extra = append(extra, p)
		}
	}
	sort.Strings(extra)
	for _, p := range extra {
		e := snap[p]
		diffs = append(diffs, fmt.Sprintf("store has %s, model does not", describe(p, e.Dir, e.Data)))
	}
	if len(diffs) > 6 {
		diffs = append(diffs[:6], fmt.Sprintf("... and %d more", len(diffs)-6))
	}
	return strings.Join(diffs, "; ")
}

// DiffSnap compares two snapshots.
func DiffSnap(a, b map[string]Entry) string {
	var diffs []string
	keys := map[string]bool{}
	for p := range a {
		keys[p] = true
	}
	for p := range b {
		keys[p] = true
	}
	var ks []string
	for p := range keys {
		ks = append(ks, p)
	}
	sort.Strings(ks)
	for _, p := range ks {
		x, okx := a[p]
		y, oky := b[p]
		switch {
		case okx && !oky:
			diffs = append(diffs, fmt.Sprintf("%s disappeared", describe(p, x.Dir, x.Data)))
		case !okx && oky:
			diffs = append(diffs, fmt.Sprintf("%s appeared", describe(p, y.Dir, y.Data)))
		case x.Dir != y.Dir:
			diffs = append(diffs, fmt.Sprintf("%s changed from %s to %s", p, kind(x.Dir), kind(y.Dir)))
		case !x.Dir && !bytes.Equal(x.Data, y.Data):
			diffs = append(diffs, fmt.Sprintf("%s content changed (%d bytes %q -> %d bytes %q)", p, len(x.Data), clip(x.Data), len(y.Data), clip(y.Data)))
		}
	}
	if len(diffs) > 6 {
		diffs = append(diffs[:6], fmt.Sprintf("... and %d more", len(diffs)-6))
	}
	return strings.Join(diffs, "; ")
}

func kind(dir bool) string {
	if dir {
		return "collection"
	}
	return "file"
}

func describe(p string, dir bool, data []byte) string {
	if dir {
		return "collection " + p
	}
	return fmt.Sprintf("file %s (%d bytes)", p, len(data))
}

func clip(b []byte) string {
	if len(b) > 24 {
		return string(b[:24]) + "..."
	}
	return string(b)
}
