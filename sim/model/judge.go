//go:build go1.25

package model

import (
	"bytes"
	"fmt"
	"net/http"
	"sort"
	"strconv"
	"strings"
)

// Request is what the server was given, as far as the model cares.
type Request struct {
	Method     string
	Path       string            // decoded URL path as the server's URL parser presents it
	H          map[string]string // canonical header name -> value; absent = header not sent
	Host       string            // Host header of the request ("" = unknown)
	Body       []byte            // bytes the client meant to send
	BodyBroken bool              // the body stream failed with an error before its end
	MayFail    bool              // the request's context was cancelled while every stream stayed healthy: it may be carried out, or refused with any status >= 400 and nothing changed

	// CondHint lets a plan generator, which cannot know entity tags before the
	// run, state what a conditional header means: header name -> "current" |
	// "differs". Never set by the executor.
	CondHint map[string]string
}

func (r *Request) Has(h string) bool { _, ok := r.H[h]; return ok }

// Response is what came back.
type Response struct {
	Status int
	H      http.Header
	Body   []byte
}

// Finding is one disagreement between the implementation and the model.
type Finding struct {
	Prop   string // property the clause belongs to (C01 or C04)
	Clause string
	Class  string // request class, for signatures
	Msg    string
}

func (f Finding) String() string { return f.Prop + "/" + f.Clause + " [" + f.Class + "] " + f.Msg }

// outcome is the model's verdict on a request before looking at the response.
type outcome struct {
	refuse      map[int]bool // acceptable refusal statuses; non-empty (or any4xx/anyFail) => must be refused
	any4xx      bool         // any 4xx is an acceptable refusal (and a refusal is required)
	anyFail     bool         // any status >= 400 is an acceptable refusal (broken upload)
	alt         map[int]bool // success expected, but these refusals are acceptable too
	alt4xx      bool         // success expected, but any 4xx refusal is acceptable too
	success     []int
	apply       func()
	conditional bool // request carried If-Match / If-None-Match
	precondFail bool // a precondition is definitely false (for C04 clause naming)
}

func (o *outcome) mustRefuse() bool { return len(o.refuse) > 0 || o.any4xx || o.anyFail }

func (o *outcome) addRefuse(codes ...int) {
	if o.refuse == nil {
		o.refuse = map[int]bool{}
	}
	for _, c := range codes {
		o.refuse[c] = true
	}
}

func (o *outcome) addAlt(codes ...int) {
	if o.alt == nil {
		o.alt = map[int]bool{}
	}
	for _, c := range codes {
		o.alt[c] = true
	}
}

func setString(m map[int]bool) string {
	var ks []int
	for k := range m {
		ks = append(ks, k)
	}
	sort.Ints(ks)
	var s []string
	for _, k := range ks {
		s = append(s, strconv.Itoa(k))
	}
	return "{" + strings.Join(s, ",") + "}"
}

// ---- conditional headers (C04) --------------------------------------------

type condKind int

const (
	condUnset condKind = iota
	condStar
	condTag       // a well-formed quoted string
	condMalformed // not a quoted string
	condOdd       // cannot be classified (escapes inside etc.): nothing is demanded
	condList      // a comma-separated list of well-formed tags: valid HTTP, but "not a quoted string"
)

// splitTagList splits a list of simple quoted tags; ok is false if any member
// is not a simple quoted string.
func splitTagList(v string) ([]string, bool) {
	var out []string
	for _, part := range strings.Split(v, ",") {
		p := strings.TrimSpace(part)
		if len(p) < 2 || p[0] != '"' || p[len(p)-1] != '"' || strings.ContainsAny(p[1:len(p)-1], "\"\\") {
			return nil, false
		}
		out = append(out, p)
	}
	return out, len(out) >= 2
}

// classifyCond classifies an If-Match / If-None-Match value. known is the set
// of tag strings the server itself has announced so far (any of those is
// well-formed by definition: "any tag so obtained is accepted back").
func classifyCond(v string, set bool, known map[string]bool) condKind {
	if !set || v == "" {
		return condUnset
	}
	if v == "*" {
		return condStar
	}
	if known[v] {
		return condTag
	}
	if len(v) >= 2 && v[0] == '"' && v[len(v)-1] == '"' {
		inner := v[1 : len(v)-1]
		if !strings.ContainsAny(inner, "\"\\") {
			for i := 0; i < len(inner); i++ {
				if inner[i] < 0x20 || inner[i] == 0x7f {
					return condOdd
				}
			}
			return condTag
		}
		return condOdd
	}
	if strings.Contains(v, ",") {
		if _, ok := splitTagList(v); ok {
			return condList
		}
		return condOdd
	}
	return condMalformed
}

// evalPreconditions adds the refusals the conditional headers demand.
func (t *Tree) evalPreconditions(o *outcome, n *Node, req *Request, known map[string]bool) {
	im, imSet := req.H["If-Match"]
	inm, inmSet := req.H["If-None-Match"]
	ki := classifyCond(im, imSet, known)
	kn := classifyCond(inm, inmSet, known)
	if ki == condUnset && kn == condUnset {
		return
	}
	o.conditional = true
	undet := false
	switch ki {
	case condStar:
		if n == nil {
			o.addRefuse(412)
			o.precondFail = true
		}
	case condTag:
		if n == nil {
			o.addRefuse(412)
			o.precondFail = true
		} else if h := req.CondHint["If-Match"]; h != "" {
			if h != "current" {
				o.addRefuse(412)
				o.precondFail = true
			}
		} else if n.Tag == "" {
			undet = true
		} else if im != n.Tag {
			o.addRefuse(412)
			o.precondFail = true
		}
	case condMalformed:
		if n == nil {
			o.addRefuse(412, 400)
			o.precondFail = true
		} else {
			o.addRefuse(400)
		}
	case condOdd:
		undet = true
	case condList:
		// The statement: not a quoted string -> 400 (with an existing resource).
		// HTTP: the precondition holds iff some member equals the current tag.
		// Either reading is accepted; ignoring all but one member is neither.
		tags, _ := splitTagList(im)
		hint := req.CondHint["If-Match"]
		switch {
		case n == nil:
			o.addRefuse(412, 400)
			o.precondFail = true
		case n.Tag == "" && hint == "":
			undet = true
		default:
			any := hint == "list-with-current"
			for _, tg := range tags {
				any = any || (hint == "" && tg == n.Tag)
			}
			if any {
				o.addAlt(400)
			} else {
				o.addRefuse(400, 412)
				o.precondFail = true
			}
		}
	}
	switch kn {
	case condStar:
		if n != nil {
			o.addRefuse(412)
			o.precondFail = true
		}
	case condTag:
		if n != nil {
			if h := req.CondHint["If-None-Match"]; h != "" {
				if h == "current" {
					o.addRefuse(412)
					o.precondFail = true
				}
			} else if n.Tag == "" {
				undet = true
			} else if inm == n.Tag {
				o.addRefuse(412)
				o.precondFail = true
			}
		}
	case condMalformed:
		if n != nil {
			o.addRefuse(400)
		} else {
			o.addAlt(400)
		}
	case condOdd:
		undet = true
	case condList:
		tags, _ := splitTagList(inm)
		hint := req.CondHint["If-None-Match"]
		switch {
		case n == nil:
			o.addAlt(400)
		case n.Tag == "" && hint == "":
			undet = true
		default:
			any := hint == "list-with-current"
			for _, tg := range tags {
				any = any || (hint == "" && tg == n.Tag)
			}
			if any {
				o.addRefuse(400, 412)
				o.precondFail = true
			} else {
				o.addAlt(400)
			}
		}
	}
	if undet {
		// cannot be decided from what has been announced: demand nothing
		if o.mustRefuse() {
			o.addRefuse(412, 400)
		} else {
			o.addAlt(412, 400)
		}
	}
}

// ---- header values ---------------------------------------------------------

type tri int

const (
	valid tri = iota
	invalid
	ambiguous // e.g. another letter case: the ABNF allows it, servers differ
)

func depthValue(req *Request) (d string, st tri) {
	v, ok := req.H["Depth"]
	if !ok {
		return "infinity", valid
	}
	switch v {
	case "0", "1", "infinity":
		return v, valid
	}
	if strings.EqualFold(v, "infinity") {
		return "infinity", ambiguous
	}
	return "", invalid
}

func overwriteValue(req *Request) (ow bool, st tri) {
	v, ok := req.H["Overwrite"]
	if !ok {
		return true, valid
	}
	switch v {
	case "T":
		return true, valid
	case "F":
		return false, valid
	case "t":
		return true, ambiguous
	case "f":
		return false, ambiguous
	}
	return false, invalid
}

// ---- request classes -------------------------------------------------------

func (t *Tree) classOf(p Norm) string {
	if !p.OK {
		return "unmappable"
	}
	n := t.N[p.Path]
	switch {
	case p.Path == "/" && n != nil:
		return "root"
	case n == nil && !t.ParentOK(p.Path):
		return "missing-noparent"
	case n == nil:
		return "missing"
	case !n.Dir:
		return "file"
	case len(t.Kids(p.Path)) == 0:
		return "empty-coll"
	default:
		return "coll"
	}
}

func hdrClass(req *Request, h string) string {
	v, ok := req.H[h]
	if !ok {
		return "-"
	}
	if len(v) > 12 {
		v = v[:12] + "~"
	}
	return v
}

// ---- the judge -------------------------------------------------------------

// Judge holds the model state across a history.
type Judge struct {
	T     *Tree
	Known map[string]bool     // every tag string the server has announced
	Hist  map[string][]string // path -> tags announced for it, oldest first
}

func NewJudge() *Judge {
	return &Judge{T: NewTree(), Known: map[string]bool{}, Hist: map[string][]string{}}
}

// Class returns the request class used in signatures and coverage counts.
func (j *Judge) Class(req *Request) string {
	t := j.T
	p := Normalise(req.Path)
	s := req.Method + " target=" + t.classOf(p)
	switch req.Method {
	case "COPY", "MOVE":
		rel := "none"
		if dv, ok := req.H["Destination"]; ok {
			ref := ParseRef(dv)
			if !ref.OK {
				rel = "invalid"
			} else {
				d := Normalise(ref.Path)
				switch {
				case !d.OK:
					rel = "unmappable"
				case p.OK && d.Path == p.Path:
					rel = "self"
				case p.OK && IsAncestor(p.Path, d.Path):
					rel = "descendant"
				case p.OK && IsAncestor(d.Path, p.Path):
					rel = "ancestor"
				default:
					rel = t.classOf(d)
				}
			}
		}
		s += " dst=" + rel + " ow=" + hdrClass(req, "Overwrite") + " depth=" + hdrClass(req, "Depth")
	case "PROPFIND":
		s += " depth=" + hdrClass(req, "Depth") + " body=" + propfindForm(req)
	case "PUT", "DELETE":
		if req.Has("If-Match") || req.Has("If-None-Match") {
			s += " if-match=" + condClass(req, "If-Match", j) + " if-none-match=" + condClass(req, "If-None-Match", j)
		}
		if req.BodyBroken {
			s += " body=broken"
		}
	case "MKCOL":
		if req.Has("Content-Type") {
			s += " with-content-type"
		}
	}
	return s
}

func condClass(req *Request, h string, j *Judge) string {
	v, ok := req.H[h]
	switch classifyCond(v, ok, j.Known) {
	case condUnset:
		return "-"
	case condStar:
		return "*"
	case condMalformed:
		return "malformed"
	case condOdd:
		return "odd"
	case condList:
		return "list"
	}
	p := Normalise(req.Path)
	if p.OK {
		if n := j.T.N[p.Path]; n != nil && n.Tag != "" {
			if n.Tag == v {
				return "current"
			}
			return "other"
		}
	}
	return "tag"
}

// PropfindForm classifies the body of a PROPFIND request.
func PropfindForm(req *Request) string { return propfindForm(req) }

func propfindForm(req *Request) string {
	if len(req.Body) == 0 {
		return "none"
	}
	root, err := ParseXML(req.Body)
	if err != nil {
		return "malformed"
	}
	if !root.Is(DAV, "propfind") {
		return "wrong-root"
	}
	var forms []string
	for _, f := range []string{"prop", "allprop", "propname"} {
		if root.Child(DAV, f) != nil {
			forms = append(forms, f)
		}
	}
	if len(forms) == 0 {
		return "none-of-three"
	}
	return strings.Join(forms, "+")
}

func isXMLType(ct string) bool {
	ct = strings.ToLower(strings.TrimSpace(strings.SplitN(ct, ";", 2)[0]))
	return ct == "application/xml" || ct == "text/xml"
}

// decide computes the model's verdict on a request from the current tree.
func (j *Judge) decide(req *Request) (o *outcome, p Norm, n *Node, pfScope []string, pfForm string) {
	t := j.T
	p = Normalise(req.Path)
	o = &outcome{}
	if p.OK {
		n = t.N[p.Path]
	}

	switch {
	case !p.OK:
		if req.Method == "OPTIONS" {
			o.success = []int{200, 204}
			o.alt4xx = true
		} else {
			o.any4xx = true
		}
	default:
		switch req.Method {
		case "OPTIONS":
			o.success = []int{200, 204}
		case "GET", "HEAD":
			switch {
			case n == nil:
				o.addRefuse(404)
			case n.Dir:
				o.addRefuse(405)
			default:
				o.success = []int{200}
			}
		case "PUT":
			if n != nil && n.Dir {
				o.addRefuse(405)
			}
			if n == nil && !t.ParentOK(p.Path) {
				o.addRefuse(409)
			}
			t.evalPreconditions(o, n, req, j.Known)
			if req.BodyBroken {
				o.anyFail = true
			}
			if n == nil {
				o.success = []int{201}
			} else {
				o.success = []int{200, 204}
			}
			body := req.Body
			path := p.Path
			o.apply = func() { t.Remove(path); t.PutFile(path, body) }
			if p.Path == "/" {
				o.alt4xx = true
			}
		case "DELETE":
			if n == nil {
				o.addRefuse(404)
			}
			t.evalPreconditions(o, n, req, j.Known)
			o.success = []int{200, 204}
			path := p.Path
			o.apply = func() { t.Remove(path) }
			if p.Path == "/" {
				o.alt4xx = true
			}
		case "MKCOL":
			if req.Has("Content-Type") {
				o.addRefuse(415)
			} else if len(req.Body) > 0 {
				o.addAlt(415, 400) // a body that is not announced: nothing is demanded
			}
			if n != nil {
				o.addRefuse(405)
			}
			if n == nil && !t.ParentOK(p.Path) {
				o.addRefuse(409)
			}
			o.success = []int{201}
			path := p.Path
			o.apply = func() { t.Mkcol(path) }
			if p.Path == "/" {
				o.alt4xx = true
			}
		case "COPY", "MOVE":
			j.copyMove(o, req, p, n)
		case "PROPFIND":
			pfForm = propfindForm(req)
			if n == nil {
				o.addRefuse(404)
			}
			d, st := depthValue(req)
			switch st {
			case invalid:
				o.addRefuse(400)
			case ambiguous:
				o.addAlt(400)
			}
			hasXMLType := isXMLType(req.H["Content-Type"])
			switch pfForm {
			case "none":
				if req.Has("Content-Type") && hasXMLType {
					// an announced XML body that is empty: RFC says allprop, a
					// strict reader says malformed
					o.addAlt(400)
				}
			case "malformed", "wrong-root", "none-of-three":
				o.addRefuse(400)
			case "prop", "allprop", "propname":
				if !hasXMLType {
					o.addAlt(400, 415)
				}
			default: // several forms at once
				o.addAlt(400)
			}
			o.success = []int{207}
			if n != nil && st != invalid {
				switch {
				case d == "0" || !n.Dir:
					pfScope = []string{p.Path}
				case d == "1":
					pfScope = append([]string{p.Path}, t.Kids(p.Path)...)
				default:
					pfScope = t.Sub(p.Path)
				}
			}
		case "PROPPATCH":
			o.any4xx = true
		default:
			o.addRefuse(405)
		}
	}
	if p.OK && p.Escapes && !o.mustRefuse() {
		o.alt4xx = true
	}
	if p.OK && p.Escapes && o.mustRefuse() {
		o.any4xx = true
	}
	return o, p, n, pfScope, pfForm
}

// Advance moves the model forward the way a conforming server would react to
// req, without a response to look at (used by plan generators). It reports
// whether the model carries the request out.
func (j *Judge) Advance(req *Request) bool {
	o, _, _, _, _ := j.decide(req)
	if o.mustRefuse() {
		return false
	}
	if o.apply != nil {
		o.apply()
	}
	return true
}

// Step judges one exchange and advances the model. It returns the findings;
// when it returns any finding whose clause is about status or effect the
// model and the implementation may have diverged and the caller should stop
// the run after comparing trees.
func (j *Judge) Step(req *Request, resp *Response) []Finding {
	t := j.T
	class := j.Class(req)
	var fs []Finding
	add := func(prop, clause, format string, a ...interface{}) {
		fs = append(fs, Finding{Prop: prop, Clause: clause, Class: class, Msg: fmt.Sprintf(format, a...)})
	}
	o, p, n, pfScope, pfForm := j.decide(req)

	// ---- compare status ----
	st := resp.Status
	statusProp := "C01"
	if o.conditional {
		statusProp = "C04"
	}
	if req.MayFail && st >= 400 {
		// a cancelled request that is refused: nothing is applied, and the
		// comparison of the trees says whether nothing was done
		return fs
	}
	if o.mustRefuse() {
		ok := o.refuse[st] || o.alt[st] || ((o.any4xx || o.alt4xx) && st >= 400 && st < 500) || (o.anyFail && st >= 400)
		if !ok {
			want := setString(o.refuse)
			if o.any4xx {
				want += "+any 4xx"
			}
			if o.anyFail {
				want += "+any >=400"
			}
			clause := "status"
			if o.conditional && o.precondFail && st/100 == 2 {
				clause = "carried-out-despite-precondition"
			} else if o.conditional && st/100 != 2 {
				clause = "precondition-status"
			}
			add(statusProp, clause, "status %d, the model refuses with %s", st, want)
		}
		return fs
	}
	isSuccess := false
	for _, s := range o.success {
		if s == st {
			isSuccess = true
		}
	}
	if !isSuccess {
		if o.alt[st] || (o.alt4xx && st >= 400 && st < 500) {
			return fs
		}
		clause := "status"
		if o.conditional && (st == 412 || st == 400) {
			clause = "refused-despite-precondition"
		}
		add(statusProp, clause, "status %d, the model answers %v", st, o.success)
		return fs
	}
	if o.apply != nil {
		o.apply()
	}

	// ---- response content on success ----
	switch req.Method {
	case "GET", "HEAD":
		if req.Method == "GET" && !bytes.Equal(resp.Body, n.Data) {
			add("C01", "body", "GET returned %d bytes %q, stored are %d bytes %q", len(resp.Body), clip(resp.Body), len(n.Data), clip(n.Data))
		}
		if req.Method == "HEAD" && len(resp.Body) != 0 {
			add("C01", "body", "HEAD returned a body of %d bytes", len(resp.Body))
		}
		if cl := resp.H.Get("Content-Length"); cl != strconv.Itoa(len(n.Data)) {
			add("C01", "header:Content-Length", "Content-Length %q, stored length %d", cl, len(n.Data))
		}
		fs = append(fs, j.learn(p.Path, n, resp.H.Get("Etag"), resp.H.Get("Last-Modified"), class, req.Method)...)
		// The content type is derived from the extension of the name as it is
		// spelled in the request, so only canonically spelled requests are
		// compared with one another (and with PROPFIND, which reports members
		// under their canonical paths).
		if req.Path == p.Path {
			ct := resp.H.Get("Content-Type")
			if n.CTypeKnown && n.CType != ct {
				add("C01", "header:Content-Type", "Content-Type %q, earlier announced %q for the same version", ct, n.CType)
			}
			n.CType, n.CTypeKnown = ct, true
		}
	case "PUT":
		nn := t.N[p.Path]
		fs = append(fs, j.learn(p.Path, nn, resp.H.Get("Etag"), resp.H.Get("Last-Modified"), class, "PUT")...)
		if n != nil && !n.Dir && n.Tag != "" && nn != nil && nn.Tag == n.Tag && !bytes.Equal(n.Data, nn.Data) {
			add("C04", "tag-reused", "the replaced content (%d bytes %q) and the new content (%d bytes %q) are announced under the same entity tag %s: a tag learned before the change still satisfies If-Match", len(n.Data), clip(n.Data), len(nn.Data), clip(nn.Data), nn.Tag)
		}
	case "OPTIONS":
		if p.OK {
			fs = append(fs, j.checkOptions(resp, n, class)...)
		}
	case "PROPFIND":
		fs = append(fs, j.checkPropfind(req, resp, pfScope, pfForm, class)...)
	}
	return fs
}

func (j *Judge) copyMove(o *outcome, req *Request, p Norm, n *Node) {
	t := j.T
	dv, hasDst := req.H["Destination"]
	if !hasDst || dv == "" {
		o.addRefuse(400)
	}
	d, dst := depthValue(req)
	switch dst {
	case invalid:
		o.addRefuse(400)
	case ambiguous:
		o.addAlt(400)
	}
	if dst != invalid {
		if req.Method == "COPY" && d == "1" {
			o.addRefuse(400)
		}
		if req.Method == "MOVE" && d != "infinity" {
			o.addRefuse(400)
		}
	}
	ow, ost := overwriteValue(req)
	switch ost {
	case invalid:
		o.addRefuse(400)
	case ambiguous:
		o.addAlt(400)
	}
	if n == nil {
		o.addRefuse(404)
	}
	var dp Norm
	if hasDst && dv != "" {
		ref := ParseRef(dv)
		if !ref.OK {
			o.addRefuse(400)
		} else {
			if ref.HasAuth && req.Host != "" {
				auth := ref.Authority
				if i := strings.LastIndexByte(auth, '@'); i >= 0 {
					auth = auth[i+1:]
				}
				if !strings.EqualFold(auth, req.Host) {
					// a destination on another authority: a server may refuse to
					// act as a gateway (RFC 4918 section 9.8.5) or ignore the authority
					o.addAlt(502)
				}
			}
			if ref.EmptyPath || ref.HasQuery || ref.HasFrag || strings.HasPrefix(dv, "//") {
				// (a scheme-less network-path reference names another authority;
				// whether its authority part is acceptable is the URL parser's call)
				o.addAlt(400)
			}
			dp = Normalise(ref.Path)
			if !dp.OK {
				o.any4xx = true
			} else if dp.Escapes {
				o.alt4xx = true
			}
		}
	}
	if dp.OK {
		dn := t.N[dp.Path]
		switch {
		case dp.Path == p.Path:
			o.addRefuse(403)
		case IsAncestor(p.Path, dp.Path) || IsAncestor(dp.Path, p.Path):
			o.any4xx = true
		}
		if dn == nil && !t.ParentOK(dp.Path) {
			o.addRefuse(409)
		}
		if dn != nil && !ow && ost != invalid {
			o.addRefuse(412)
		}
		if dn == nil {
			o.success = []int{201}
		} else {
			o.success = []int{204}
		}
		src, dstp := p.Path, dp.Path
		deep := d != "0"
		move := req.Method == "MOVE"
		o.apply = func() {
			t.Remove(dstp)
			t.Copy(src, dstp, deep)
			if move {
				t.Remove(src)
			}
		}
	}
}

// learn records / checks the entity tag and modification date announced for
// the current version of a resource.
func (j *Judge) learn(path string, n *Node, etag, lastMod, class, where string) []Finding {
	var fs []Finding
	if n == nil {
		return nil
	}
	if where == "GET" || where == "HEAD" {
		// what PROPFIND (or an earlier GET) told about this very version, a GET
		// or HEAD of it tells too
		if lastMod == "" && n.LastMod != "" {
			fs = append(fs, Finding{Prop: "C01", Clause: "header:Last-Modified", Class: class,
				Msg: fmt.Sprintf("%s carries no Last-Modified, the same unmodified version was announced with modification time %s before", where, n.LastMod)})
		}
		if etag == "" && n.Tag != "" {
			fs = append(fs, Finding{Prop: "C04", Clause: "tag-inconsistent", Class: class,
				Msg: fmt.Sprintf("%s carries no entity tag, the same unmodified version was announced as %s before", where, n.Tag)})
		}
	}
	if etag != "" {
		j.Known[etag] = true
		if h := j.Hist[path]; len(h) == 0 || h[len(h)-1] != etag {
			j.Hist[path] = append(h, etag)
		}
		if n.Tag == "" {
			n.Tag = etag
		} else if n.Tag != etag {
			fs = append(fs, Finding{Prop: "C04", Clause: "tag-inconsistent", Class: class,
				Msg: fmt.Sprintf("%s announces entity tag %s, the same unmodified version was announced as %s before", where, etag, n.Tag)})
		}
	}
	if lastMod != "" {
		tm, err := http.ParseTime(lastMod)
		if err != nil {
			fs = append(fs, Finding{Prop: "C01", Clause: "header:Last-Modified", Class: class,
				Msg: fmt.Sprintf("%s: Last-Modified %q does not parse: %v", where, lastMod, err)})
		} else {
			canon := tm.UTC().Format(http.TimeFormat)
			if n.LastMod == "" {
				n.LastMod = canon
			} else if n.LastMod != canon {
				fs = append(fs, Finding{Prop: "C01", Clause: "header:Last-Modified", Class: class,
					Msg: fmt.Sprintf("%s announces modification time %s, the same unmodified version was announced as %s before", where, canon, n.LastMod)})
			}
		}
	}
	return fs
}

func tokenSet(vals []string) map[string]bool {
	m := map[string]bool{}
	for _, v := range vals {
		for _, f := range strings.Split(v, ",") {
			f = strings.TrimSpace(f)
			if f != "" {
				m[strings.ToUpper(f)] = true
			}
		}
	}
	return m
}

func (j *Judge) checkOptions(resp *Response, n *Node, class string) []Finding {
	var fs []Finding
	dav := tokenSet(resp.H.Values("Dav"))
	if !dav["1"] {
		fs = append(fs, Finding{"C01", "header:DAV", class, fmt.Sprintf("DAV header %q does not list class 1", resp.H.Values("Dav"))})
	}
	allow := tokenSet(resp.H.Values("Allow"))
	var must, mustNot []string
	switch {
	case n == nil:
		must = []string{"OPTIONS", "PUT", "MKCOL"}
		mustNot = []string{"GET", "HEAD", "DELETE", "PROPFIND", "COPY", "MOVE"}
	case n.Dir:
		must = []string{"OPTIONS", "DELETE", "PROPFIND", "COPY", "MOVE"}
		mustNot = []string{"GET", "HEAD", "PUT", "MKCOL"}
	default:
		must = []string{"OPTIONS", "GET", "HEAD", "PUT", "DELETE", "PROPFIND", "COPY", "MOVE"}
		mustNot = []string{"MKCOL"}
	}
	for _, m := range must {
		if !allow[m] {
			fs = append(fs, Finding{"C01", "allow", class, fmt.Sprintf("Allow %q lacks %s", resp.H.Values("Allow"), m)})
		}
	}
	for _, m := range mustNot {
		if allow[m] {
			fs = append(fs, Finding{"C01", "allow", class, fmt.Sprintf("Allow %q lists %s, which the model refuses here", resp.H.Values("Allow"), m)})
		}
	}
	return fs
}

func (j *Judge) checkPropfind(req *Request, resp *Response, scope []string, form, class string) []Finding {
	t := j.T
	var fs []Finding
	add := func(prop, clause, format string, a ...interface{}) {
		fs = append(fs, Finding{Prop: prop, Clause: clause, Class: class, Msg: fmt.Sprintf(format, a...)})
	}
	ms, err := ParseMultiStatus(resp.Body)
	if err != nil {
		add("C01", "body", "207 body is not a readable multi-status: %v", err)
		return fs
	}
	want := map[string]bool{}
	for _, s := range scope {
		want[s] = true
	}
	seen := map[string]bool{}
	requested := map[string]bool{}
	if form == "prop" {
		if root, err := ParseXML(req.Body); err == nil {
			if pr := root.Child(DAV, "prop"); pr != nil {
				for _, k := range pr.Kids {
					requested[k.Name()] = true
				}
			}
		}
	}
	for _, r := range ms.Responses {
		if len(r.Hrefs) != 1 {
			add("C01", "ms-href", "response carries %d hrefs", len(r.Hrefs))
			continue
		}
		ref := ParseHref(r.Hrefs[0])
		np := Normalise(ref.Path)
		if !ref.OK || !np.OK {
			add("C01", "ms-href", "href %q cannot be mapped into the namespace", r.Hrefs[0])
			continue
		}
		if !want[np.Path] {
			add("C01", "ms-scope", "href %q (= %s) is not in scope %v", r.Hrefs[0], np.Path, scope)
			continue
		}
		if seen[np.Path] {
			add("C01", "ms-scope", "resource %s is reported twice", np.Path)
			continue
		}
		seen[np.Path] = true
		n := t.N[np.Path]
		if n == nil {
			continue
		}
		wantsAll := form == "allprop" || form == "none"
		if form == "propname" {
			if r.PropAny("{DAV:}resourcetype") == nil {
				add("C01", "ms-props", "%s: propname answer lacks resourcetype", np.Path)
			}
			if !n.Dir && r.PropAny("{DAV:}getcontentlength") == nil {
				add("C01", "ms-props", "%s: propname answer lacks getcontentlength", np.Path)
			}
			continue
		}
		if wantsAll || requested["{DAV:}resourcetype"] {
			rt := r.Prop("{DAV:}resourcetype")
			if rt == nil {
				add("C01", "ms-props", "%s: resourcetype not reported", np.Path)
			} else if (rt.Elem.Child(DAV, "collection") != nil) != n.Dir {
				add("C01", "ms-props", "%s: resourcetype says collection=%v, stored is a %s", np.Path, !n.Dir, kind(n.Dir))
			}
		}
		if !n.Dir {
			if wantsAll || requested["{DAV:}getcontentlength"] {
				cl := r.Prop("{DAV:}getcontentlength")
				if cl == nil {
					add("C01", "ms-props", "%s: getcontentlength not reported", np.Path)
				} else if strings.TrimSpace(cl.Elem.Text) != strconv.Itoa(len(n.Data)) {
					add("C01", "ms-props", "%s: getcontentlength %q, stored length %d", np.Path, cl.Elem.Text, len(n.Data))
				}
			}
			etag, lastMod := "", ""
			if e := r.Prop("{DAV:}getetag"); e != nil {
				etag = strings.TrimSpace(e.Elem.Text)
			}
			if e := r.Prop("{DAV:}getlastmodified"); e != nil {
				lastMod = strings.TrimSpace(e.Elem.Text)
			}
			fs = append(fs, j.learn(np.Path, n, etag, lastMod, class, "PROPFIND")...)
			if e := r.Prop("{DAV:}getcontenttype"); e != nil && n.CTypeKnown && ref.Path == np.Path {
				if strings.TrimSpace(e.Elem.Text) != n.CType {
					add("C01", "ms-props", "%s: getcontenttype %q, GET announced %q", np.Path, e.Elem.Text, n.CType)
				}
			}
		} else if rt := r.Prop("{DAV:}resourcetype"); rt != nil && rt.Elem.Child(DAV, "collection") == nil {
			add("C01", "ms-props", "%s: a collection is reported without the collection resource type", np.Path)
		}
	}
	for _, s := range scope {
		if !seen[s] {
			add("C01", "ms-scope", "resource %s is in scope but not reported", s)
		}
	}
	return fs
}
