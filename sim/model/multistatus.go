//go:build go1.25

package model

import (
	"fmt"
	"strconv"
	"strings"
)

const DAV = "DAV:"

// MSProp is one property inside a propstat.
type MSProp struct {
	Name   string // {ns}local
	Status int    // status of the enclosing propstat
	Elem   *Elem
}

// MSResponse is one DAV:response.
type MSResponse struct {
	Hrefs  []string // raw href text (as on the wire, trimmed)
	Status int      // response-level status, 0 when absent
	Props  []MSProp
}

// Prop returns the property with the given expanded name reported under a 2xx
// propstat, or nil.
func (r *MSResponse) Prop(name string) *MSProp {
	for i := range r.Props {
		if r.Props[i].Name == name && r.Props[i].Status/100 == 2 {
			return &r.Props[i]
		}
	}
	return nil
}

func (r *MSResponse) PropAny(name string) *MSProp {
	for i := range r.Props {
		if r.Props[i].Name == name {
			return &r.Props[i]
		}
	}
	return nil
}

// MultiStatus is a parsed 207 body.
type MultiStatus struct {
	Responses []MSResponse
	SyncToken string
}

func parseStatusLine(s string) (int, error) {
	f := strings.Fields(s)
	if len(f) < 2 || !strings.HasPrefix(f[0], "HTTP/") {
		return 0, fmt.Errorf("bad status line %q", s)
	}
	n, err := strconv.Atoi(f[1])
	if err != nil || n < 100 || n > 999 {
		return 0, fmt.Errorf("bad status code in %q", s)
	}
	return n, nil
}

// ParseMultiStatus reads an RFC 4918 section 14.16 document strictly.
func ParseMultiStatus(body []byte) (*MultiStatus, error) {
	root, err := ParseXML(body)
	if err != nil {
		return nil, err
	}
	if !root.Is(DAV, "multistatus") {
		return nil, fmt.Errorf("root element is %s, want {DAV:}multistatus", root.Name())
	}
	ms := &MultiStatus{}
	for _, k := range root.Kids {
		switch {
		case k.Is(DAV, "response"):
			r := MSResponse{}
			for _, h := range k.Children(DAV, "href") {
				r.Hrefs = append(r.Hrefs, strings.TrimSpace(h.Text))
			}
			if len(r.Hrefs) == 0 {
				return nil, fmt.Errorf("response without href")
			}
			if st := k.Child(DAV, "status"); st != nil {
				c, err := parseStatusLine(st.Text)
				if err != nil {
					return nil, err
				}
				r.Status = c
			}
			for _, ps := range k.Children(DAV, "propstat") {
				st := ps.Child(DAV, "status")
				if st == nil {
					return nil, fmt.Errorf("propstat without status")
				}
				c, err := parseStatusLine(st.Text)
				if err != nil {
					return nil, err
				}
				pr := ps.Child(DAV, "prop")
				if pr == nil {
					return nil, fmt.Errorf("propstat without prop")
				}
				for _, p := range pr.Kids {
					r.Props = append(r.Props, MSProp{Name: p.Name(), Status: c, Elem: p})
				}
			}
			ms.Responses = append(ms.Responses, r)
		case k.Is(DAV, "sync-token"):
			ms.SyncToken = strings.TrimSpace(k.Text)
		case k.Is(DAV, "responsedescription"):
		default:
			// unknown children are allowed by the extensibility rules
		}
	}
	return ms, nil
}
