//go:build go1.25

// Package simioutil stands in for io/ioutil in the scratch copy.
package simioutil

import (
	"io"
	"io/fs"

	os "github.com/emersion/go-webdav/vsim/simos"
)

var Discard = io.Discard

func NopCloser(r io.Reader) io.ReadCloser { return io.NopCloser(r) }
func ReadAll(r io.Reader) ([]byte, error) { return io.ReadAll(r) }

func ReadDir(dirname string) ([]fs.FileInfo, error) {
	ents, err := os.ReadDir(dirname)
	if err != nil {
		return nil, err
	}
	out := make([]fs.FileInfo, 0, len(ents))
	for _, e := range ents {
		fi, err := e.Info()
		if err != nil {
			return nil, err
		}
		out = append(out, fi)
	}
	return out, nil
}

func ReadFile(filename string) ([]byte, error) { return os.ReadFile(filename) }
func WriteFile(filename string, data []byte, perm fs.FileMode) error {
	return os.WriteFile(filename, data, perm)
}
func TempDir(dir, pattern string) (string, error)    { return os.MkdirTemp(dir, pattern) }
func TempFile(dir, pattern string) (*os.File, error) { return os.CreateTemp(dir, pattern) }
