//go:build go1.25

//go:debug asynctimerchan=0

package wdsim

import (
	"encoding/json"
	"os"
	"testing"
)

// TestWorker is the entry point of a worker process. It does nothing unless
// the driver supplied a configuration.
func TestWorker(t *testing.T) {
	path := os.Getenv("VSIM_CONFIG")
	if path == "" {
		t.Skip("VSIM_CONFIG not set")
	}
	b, err := os.ReadFile(path)
	if err != nil {
		t.Fatal(err)
	}
	var cfg WorkerConfig
	if err := json.Unmarshal(b, &cfg); err != nil {
		t.Fatal(err)
	}
	out := RunWorker(t, &cfg)
	ob, _ := json.Marshal(out)
	if err := os.WriteFile(cfg.Out, ob, 0o644); err != nil {
		t.Fatal(err)
	}
}
