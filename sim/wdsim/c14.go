//go:build go1.25

package wdsim

import (
	"bytes"
	"context"
	"encoding/xml"
	"errors"
	"fmt"
	"io"
	"net/http"
	"net/http/httptest"
	"runtime/debug"
	"sort"
	"strings"
	"time"

	"github.com/emersion/go-ical"
	webdav "github.com/emersion/go-webdav"
	"github.com/emersion/go-webdav/caldav"
	"github.com/emersion/go-webdav/carddav"
	"github.com/emersion/go-webdav/internal"
	"github.com/emersion/go-webdav/vsim/model"
	"github.com/emersion/go-webdav/vsim/rt"
)

// ---- response faults ---------------------------------------------------------------

var errTransport = errors.New("vsim: injected transport failure")

// trip is one round trip of a client call as the transport saw it.
type trip struct {
	Method, URI string
	RealStatus  int
	Status      int // delivered
	Header      http.Header
	Body        []byte // delivered body (before any cut)
	CutAt       int    // -1: not cut
	CutKind     string
	Err         error
	Faulted     string
	Rewritten   string // what the multi-status rewrite did
	body        *FaultBody
	endless     *endlessBody
	closed      *closeNote // nil: no body was handed out
}

// closeNote remembers whether the body of an answer was closed: a body that
// is never closed keeps its connection from going back to the pool, and the
// calls after it wait for a connection that never comes.
type closeNote struct {
	io.ReadCloser
	done bool
}

func (c *closeNote) Close() error { c.done = true; return c.ReadCloser.Close() }

func noteClose(t *trip, rc io.ReadCloser) io.ReadCloser {
	t.closed = &closeNote{ReadCloser: rc}
	return t.closed
}

// endlessBody is an error page that never ends (a misbehaving proxy, a
// streaming endpoint). A client must not try to read it to its end. After
// endlessLimit bytes it gives up with an error so that the run terminates.
type endlessBody struct {
	n       int
	Runaway bool
}

const endlessLimit = 4 << 20

var errRunaway = errors.New("vsim: the endless body was read past 4 MiB")

func (e *endlessBody) Read(p []byte) (int, error) {
	if e.n > endlessLimit {
		e.Runaway = true
		return 0, errRunaway
	}
	for i := range p {
		p[i] = "All work and no play makes the proxy a dull boy. "[(e.n+i)%49]
	}
	e.n += len(p)
	return len(p), nil
}
func (e *endlessBody) Close() error { return nil }

type c14Transport struct {
	ex     *executor
	h      http.Handler
	faults []Fault
	trips  []*trip
	cancel context.CancelFunc
}

func docEnd(ctype string, body []byte) int {
	s := string(body)
	switch {
	case strings.Contains(ctype, "calendar"):
		if i := strings.LastIndex(s, "END:VCALENDAR"); i >= 0 {
			return i + len("END:VCALENDAR")
		}
	case strings.Contains(ctype, "vcard"):
		if i := strings.LastIndex(s, "END:VCARD"); i >= 0 {
			return i + len("END:VCARD")
		}
	case strings.Contains(ctype, "xml"):
		if i := strings.LastIndex(s, ">"); i >= 0 {
			return i + 1
		}
	}
	return len(body)
}

func (tr *c14Transport) RoundTrip(creq *http.Request) (*http.Response, error) {
	if creq.Body != nil {
		defer creq.Body.Close()
	}
	ex := tr.ex
	n := len(tr.trips)
	t := &trip{Method: creq.Method, URI: creq.URL.RequestURI(), CutAt: -1}
	tr.trips = append(tr.trips, t)
	var f *Fault
	for i := range tr.faults {
		if (tr.faults[i].Seam == "resp" || tr.faults[i].Seam == "transport") && tr.faults[i].Trip == n {
			f = &tr.faults[i]
		}
	}
	if err := creq.Context().Err(); err != nil {
		t.Err = err
		return nil, err
	}
	if f != nil && f.Kind == "error-before" {
		t.Err, t.Faulted = errTransport, f.Kind
		return nil, errTransport
	}
	if f != nil && f.Kind == "early-status" {
		// the server answers without reading a byte of the body (an
		// authorisation or precondition refusal, a proxy)
		t.Faulted, t.Status, t.RealStatus = f.Kind, f.Arg, 0
		t.Header = http.Header{"Content-Type": {"text/plain; charset=utf-8"}}
		t.Body = []byte("refused before the body was read\n")
		return &http.Response{Status: fmt.Sprintf("%d %s", t.Status, http.StatusText(t.Status)), StatusCode: t.Status, Proto: "HTTP/1.1", ProtoMajor: 1, ProtoMinor: 1,
			Header: t.Header, Body: noteClose(t, io.NopCloser(bytes.NewReader(t.Body))), ContentLength: int64(len(t.Body)), Request: creq}, nil
	}
	if f != nil && f.Kind == "stall" {
		// the server never answers; only the context can end this
		t.Faulted = f.Kind
		<-creq.Context().Done()
		t.Err = creq.Context().Err()
		return nil, t.Err
	}
	sreq, err := serverRequest(creq)
	if err != nil {
		t.Err = err
		return nil, err
	}
	sreq = sreq.WithContext(creq.Context())
	if creq.Body != nil && creq.Body != http.NoBody {
		sreq.Body = creq.Body
	}
	rec := httptest.NewRecorder()
	pan := ""
	func() {
		defer func() {
			if r := recover(); r != nil {
				pan = fmt.Sprintf("%v\n%s", r, debug.Stack())
			}
		}()
		tr.h.ServeHTTP(rec, sreq)
	}()
	if pan != "" {
		ex.finding(Violation{Prop: "C13", Clause: "panic", Class: "server side of a client call", Msg: pan})
	}
	res := rec.Result()
	rb, _ := io.ReadAll(res.Body)
	if sreq.Method == "HEAD" || res.StatusCode == 204 || res.StatusCode == 304 {
		rb = nil
	}
	t.RealStatus, t.Status, t.Header, t.Body = res.StatusCode, res.StatusCode, res.Header.Clone(), rb
	if f != nil && f.Kind == "error-after" {
		t.Err, t.Faulted = errTransport, f.Kind
		return nil, errTransport
	}
	if f != nil {
		t.Faulted = f.Kind
		switch f.Kind {
		case "status-empty":
			t.Status, t.Body = f.Arg, nil
			t.Header = http.Header{}
		case "status-text":
			t.Status, t.Body = f.Arg, []byte("something went wrong on the server\n")
			t.Header = http.Header{"Content-Type": {"text/plain; charset=utf-8"}}
		case "status-long-text":
			t.Status, t.Body = f.Arg, bytes.Repeat([]byte("long error text "), 200)
			t.Header = http.Header{"Content-Type": {"text/plain"}}
		case "status-daverror":
			t.Status, t.Body = f.Arg, []byte(xmlHdr+`<D:error xmlns:D="DAV:"><D:lock-token-submitted><D:href>/locked/</D:href></D:lock-token-submitted></D:error>`)
			t.Header = http.Header{"Content-Type": {rt.Pick(rt.NewRand(uint64(f.Arg)), []string{"application/xml", "text/xml; charset=utf-8", `application/xml; charset="utf-8"`, `Application/XML; charset="utf-8"`, "TEXT/XML", "text/Xml;charset=UTF-8", "application/xml ; charset=utf-8"})}}
		case "status-daverror-large":
			var sb strings.Builder
			sb.WriteString(xmlHdr + `<D:error xmlns:D="DAV:"><D:lock-token-submitted>`)
			for i := 0; i < 40+f.Arg%300; i++ {
				fmt.Fprintf(&sb, "<D:href>/locked/collection/member-%04d.txt</D:href>", i)
			}
			sb.WriteString(`</D:lock-token-submitted></D:error>`)
			t.Status, t.Body = f.Arg, []byte(sb.String())
			t.Header = http.Header{"Content-Type": {"application/xml; charset=utf-8"}}
		case "status-xml-garbage":
			t.Status, t.Body = f.Arg, []byte(`<not-closed><x>`)
			t.Header = http.Header{"Content-Type": {"application/xml"}}
		case "status-html":
			t.Status, t.Body = f.Arg, []byte("<html><body><h1>Proxy error</h1></body></html>")
			t.Header = http.Header{"Content-Type": {"text/html"}}
		case "status-other-type":
			// neither XML nor text: what API gateways and storage back ends say
			types := []string{"application/json", "application/problem+json", "application/octet-stream", "image/png", "multipart/mixed; boundary=x", "application/x-www-form-urlencoded", "message/http"}
			t.Status, t.Body = f.Arg, []byte(`{"error":"upstream unavailable","code":17}`)
			t.Header = http.Header{"Content-Type": {types[f.Sel%len(types)]}}
		case "status-endless-text", "status-endless-html", "status-endless-opaque", "status-endless-notype":
			t.Status, t.Body = f.Arg, nil
			ct := map[string]string{"status-endless-text": "text/plain; charset=utf-8", "status-endless-html": "text/html", "status-endless-opaque": "application/octet-stream"}[f.Kind]
			t.Header = http.Header{}
			if ct != "" {
				t.Header.Set("Content-Type", ct)
			}
			t.endless = &endlessBody{}
		case "status-keep-body":
			t.Status = f.Arg
		case "cut-eof", "cut-error":
			t.CutAt, t.CutKind = f.At, f.Kind
			if t.CutAt > len(t.Body) {
				t.CutAt = len(t.Body)
			}
		case "no-content-type":
			t.Header.Del("Content-Type")
		case "wrong-content-type":
			t.Header.Set("Content-Type", "application/octet-stream")
		case "ms-ill-formed":
			// a damaged byte or a sloppy generator: no longer XML, although a
			// lenient (non-strict, HTML) reader would make something of it
			if t.Status == 207 && len(t.Body) > 0 {
				b := string(t.Body)
				switch f.Sel % 4 {
				case 0:
					if i := strings.Index(b, "</"); i >= 0 {
						j := i
						for k := 0; k < f.At; k++ { // the At-th end tag, if there are that many
							if n := strings.Index(b[j+2:], "</"); n >= 0 {
								j += 2 + n
							}
						}
						b = b[:j] + "<" + b[j+2:]
						t.Rewritten = "an end tag turned into a start tag"
					}
				case 1:
					if i := strings.Index(b, "</"); i > 0 {
						b = b[:i] + "&nbsp;" + b[i:]
						t.Rewritten = "an undeclared entity"
					}
				case 2:
					if i := strings.LastIndex(b, "</"); i > 0 {
						if j := strings.Index(b[i:], ">"); j > 3 {
							b = b[:i+j-1] + "X" + b[i+j-1:]
							t.Rewritten = "mismatched name in the last end tag"
						}
					}
				default:
					if i := strings.Index(b, "?>"); i > 0 {
						b = b[:i+2] + "<multistatus xmlns=DAV: >" + b[i+2:]
						t.Rewritten = "an unquoted attribute value"
					}
				}
				if t.Rewritten != "" {
					t.Body = []byte(b)
				}
			}
		case "ms-neutral":
			if t.Status == 207 {
				if nb, what := neutralRewrite(t.Body, f.Sel); what != "" {
					t.Body, t.Rewritten = nb, what
				}
			}
		case "ms-response-status", "ms-propstat-status", "ms-no-href", "ms-two-hrefs", "ms-empty", "ms-status-garbage":
			if t.Status == 207 {
				if nb, what := rewriteMultiStatus(t.Body, f); what != "" {
					t.Body, t.Rewritten = nb, what
				}
			}
		}
	}
	if f != nil && strings.HasPrefix(f.Kind, "status-") && f.Note == "cut" && t.endless == nil && len(t.Body) > 0 {
		// the error answer itself does not arrive whole: the connection breaks
		// inside its body (the status line and the headers are there)
		t.CutAt, t.CutKind = f.At%len(t.Body), "cut-error"
	}
	announced := int64(-1)
	if f != nil && f.Note == "absurd-length" {
		// a Content-Length that has nothing to do with what follows (a broken
		// proxy, an attack): the body ends, with an error, long before it
		announced = []int64{1 << 62, 1<<63 - 1, 1 << 40, 1 << 31}[f.Sel%4]
		t.Header = t.Header.Clone()
		t.Header.Set("Content-Length", fmt.Sprint(announced))
		if t.CutAt < 0 {
			t.CutAt, t.CutKind = len(t.Body), "cut-error"
		}
	}
	var body io.ReadCloser = io.NopCloser(bytes.NewReader(t.Body))
	if t.endless != nil {
		body = t.endless
	}
	if t.CutAt >= 0 {
		kind := "clean-eof"
		if t.CutKind == "cut-error" {
			kind = "unexpected-eof"
		}
		t.body = &FaultBody{Data: t.Body, Fault: &Fault{Seam: "resp", At: t.CutAt, Kind: kind}, Chunk: rt.Pick(rt.NewRand(uint64(t.CutAt)), []int{0, 1, 7, 512})}
		body = t.body
	}
	return &http.Response{
		Status: fmt.Sprintf("%d %s", t.Status, http.StatusText(t.Status)), StatusCode: t.Status,
		Proto: "HTTP/1.1", ProtoMajor: 1, ProtoMinor: 1, Header: t.Header,
		Body: noteClose(t, body), ContentLength: announced, Request: creq,
	}, nil
}

func safeErrText(err error) (text, pan string) {
	defer func() {
		if r := recover(); r != nil {
			pan = fmt.Sprint(r)
		}
	}()
	return err.Error(), ""
}

// ---- multi-status rewriting ------------------------------------------------------

// neutralRewrite says the same multi-status in other words: status lines with
// an empty reason phrase (legal: "HTTP/1.1 200 " - the library writes them
// itself for codes it has no text for), another protocol version and a long
// phrase, indentation between the elements, comments and a processing
// instruction. The call must give what it gives for the original.
func neutralRewrite(body []byte, sel int) ([]byte, string) {
	root, err := model.ParseXML(body)
	if err != nil || !root.Is(model.DAV, "multistatus") {
		return nil, ""
	}
	var walk func(e *model.Elem, f func(*model.Elem))
	walk = func(e *model.Elem, f func(*model.Elem)) {
		f(e)
		for _, k := range e.Kids {
			walk(k, f)
		}
	}
	what := ""
	switch sel % 3 {
	case 0:
		what = "status lines with an empty reason phrase"
		walk(root, func(e *model.Elem) {
			if e.Is(model.DAV, "status") {
				if f := strings.Fields(e.Text); len(f) >= 2 {
					e.Text = f[0] + " " + f[1] + " "
				}
			}
		})
	case 1:
		what = "status lines of HTTP/1.0 with a long reason phrase"
		walk(root, func(e *model.Elem) {
			if e.Is(model.DAV, "status") {
				if f := strings.Fields(e.Text); len(f) >= 2 {
					e.Text = "HTTP/1.0 " + f[1] + " as the back end told the gateway some time ago"
				}
			}
		})
	default:
		what = "same document, written by another serialiser"
	}
	var b strings.Builder
	b.WriteString(xmlHdr)
	if sel%2 == 1 {
		b.WriteString("<!-- written by a gateway -->\n<?gateway hop=\"2\"?>\n")
	}
	writeElem(&b, root)
	return []byte(b.String()), what
}

func writeElem(b *strings.Builder, e *model.Elem) {
	fmt.Fprintf(b, `<%s xmlns="%s"`, e.Local, e.Space)
	for _, a := range e.Attrs {
		fmt.Fprintf(b, ` %s="`, a.Name.Local)
		xml.EscapeText(b, []byte(a.Value))
		b.WriteString(`"`)
	}
	b.WriteString(">")
	if len(e.Kids) == 0 {
		xml.EscapeText(b, []byte(e.Text))
	}
	for _, k := range e.Kids {
		writeElem(b, k)
	}
	fmt.Fprintf(b, "</%s>", e.Local)
}

// rewriteMultiStatus makes one resource (response-level status) or one
// property (its own propstat with a failure status) of a real multi-status
// fail. f.At picks the response, f.Arg the status, f.Op (optional) the property.
func rewriteMultiStatus(body []byte, f *Fault) ([]byte, string) {
	root, err := model.ParseXML(body)
	if err != nil || !root.Is(model.DAV, "multistatus") {
		return nil, ""
	}
	resps := root.Children(model.DAV, "response")
	if len(resps) == 0 {
		return nil, ""
	}
	r := resps[f.At%len(resps)]
	href := ""
	if h := r.Child(model.DAV, "href"); h != nil {
		href = h.Text
	}
	statusLine := fmt.Sprintf("HTTP/1.1 %d %s", f.Arg, http.StatusText(f.Arg))
	what := ""
	switch f.Kind {
	case "ms-empty":
		root.Kids = nil
		var b strings.Builder
		b.WriteString(xmlHdr)
		writeElem(&b, root)
		return []byte(b.String()), "no responses at all"
	case "ms-no-href":
		var kids []*model.Elem
		for _, k := range r.Kids {
			if !k.Is(model.DAV, "href") {
				kids = append(kids, k)
			}
		}
		r.Kids = kids
		var b strings.Builder
		b.WriteString(xmlHdr)
		writeElem(&b, root)
		return []byte(b.String()), "response without href (was " + href + ")"
	case "ms-two-hrefs":
		r.Kids = append([]*model.Elem{{Space: model.DAV, Local: "href", Text: "/somewhere/else"}}, r.Kids...)
		var b strings.Builder
		b.WriteString(xmlHdr)
		writeElem(&b, root)
		return []byte(b.String()), "response with two hrefs (" + href + ")"
	case "ms-status-garbage":
		for _, ps := range r.Children(model.DAV, "propstat") {
			if st := ps.Child(model.DAV, "status"); st != nil {
				st.Text = []string{"garbage", "HTTP/1.1", "200", "HTTP/1.1 abc OK", "HTTP/1.1 99999999999999999999 OK", ""}[f.Sel%6]
			}
		}
		var b strings.Builder
		b.WriteString(xmlHdr)
		writeElem(&b, root)
		return []byte(b.String()), "propstat status lines replaced by garbage (" + href + ")"
	}
	if f.Kind == "ms-response-status" {
		var kids []*model.Elem
		for _, k := range r.Kids {
			if (!k.Is(model.DAV, "propstat") || f.Note == "keep-propstat") && !k.Is(model.DAV, "status") {
				kids = append(kids, k)
			}
		}
		if f.Note == "keep-propstat" && f.Sel%2 == 0 {
			// the status in front of the propstats, or behind them
			var rest []*model.Elem
			var hrefs []*model.Elem
			for _, k := range kids {
				if k.Is(model.DAV, "href") {
					hrefs = append(hrefs, k)
				} else {
					rest = append(rest, k)
				}
			}
			kids = append(append(hrefs, &model.Elem{Space: model.DAV, Local: "status", Text: statusLine}), rest...)
		} else {
			kids = append(kids, &model.Elem{Space: model.DAV, Local: "status", Text: statusLine})
		}
		switch f.Sel % 3 {
		case 1:
			kids = append(kids, &model.Elem{Space: model.DAV, Local: "responsedescription", Text: "the resource is gone"})
		case 2:
			kids = append(kids, &model.Elem{Space: model.DAV, Local: "error", Kids: []*model.Elem{{Space: model.DAV, Local: "need-privileges"}}},
				&model.Elem{Space: model.DAV, Local: "responsedescription", Text: "no"})
		}
		r.Kids = kids
		what = fmt.Sprintf("response %s status=%d", href, f.Arg)
	} else {
		// move one property of a 200 propstat into a failing propstat
		var victim *model.Elem
		var from *model.Elem
		var all []*model.Elem
		for _, ps := range r.Children(model.DAV, "propstat") {
			st := ps.Child(model.DAV, "status")
			pr := ps.Child(model.DAV, "prop")
			if st == nil || pr == nil || !strings.Contains(st.Text, " 200") {
				continue
			}
			for _, p := range pr.Kids {
				all = append(all, p)
				if from == nil {
					from = pr
				}
			}
		}
		if len(all) == 0 {
			return nil, ""
		}
		victim = all[f.Sel%len(all)]
		for _, ps := range r.Children(model.DAV, "propstat") {
			if pr := ps.Child(model.DAV, "prop"); pr != nil {
				var kids []*model.Elem
				for _, p := range pr.Kids {
					if p != victim {
						kids = append(kids, p)
					}
				}
				pr.Kids = kids
			}
		}
		empty := &model.Elem{Space: victim.Space, Local: victim.Local}
		if f.Note == "keep-value" {
			empty = victim // a failing propstat that still carries a value: must not be used
		}
		r.Kids = append(r.Kids, &model.Elem{Space: model.DAV, Local: "propstat", Kids: []*model.Elem{
			{Space: model.DAV, Local: "prop", Kids: []*model.Elem{empty}},
			{Space: model.DAV, Local: "status", Text: statusLine},
		}})
		what = fmt.Sprintf("propstat %s %s status=%d", href, victim.Name(), f.Arg)
	}
	var b strings.Builder
	b.WriteString(xmlHdr)
	writeElem(&b, root)
	return []byte(b.String()), what
}

// ---- the calls ---------------------------------------------------------------------

// callResult is what a client call returned, flattened for the oracles.
type callResult struct {
	Err    error
	Items  []callItem // resources returned as data
	Dele   []string   // sync-collection: paths reported as deleted
	Panic  string
	ReadOK bool // a body stream handed to the caller was read to its end without error
}

type callItem struct {
	Path    string
	Fields  map[string]bool // which optional fields carry a value: etag, modtime, size, type, name, desc, data
	HasData bool
}

func fields(kv ...interface{}) map[string]bool {
	m := map[string]bool{}
	for i := 0; i+1 < len(kv); i += 2 {
		if kv[i+1].(bool) {
			m[kv[i].(string)] = true
		}
	}
	return m
}

func fileItem(fi *webdav.FileInfo) callItem {
	return callItem{Path: fi.Path, Fields: fields("etag", fi.ETag != "", "modtime", !fi.ModTime.IsZero(), "size", fi.Size != 0, "type", fi.MIMEType != "")}
}

// multistatusCalls are the calls that require a 207.
var multistatusCalls = map[string]bool{"FindCurrentUserPrincipal": true, "Stat": true, "ReadDir": true, "FindCalendarHomeSet": true, "FindCalendars": true, "QueryCalendar": true,
	"MultiGetCalendar": true, "FindAddressBookHomeSet": true, "FindAddressBooks": true, "QueryAddressBook": true, "MultiGetAddressBook": true, "SyncCollection": true}

// bodyCalls are the calls that interpret the response body.
var bodyCalls = map[string]bool{"Open": true, "GetCalendarObject": true, "GetAddressObject": true}

// clientSet holds one client of each package on one HTTP client and endpoint.
type clientSet struct {
	wd   *webdav.Client
	cal  *caldav.Client
	card *carddav.Client
}

func newClientSet(hc webdav.HTTPClient, endpoint string) (*clientSet, error) {
	var cs clientSet
	var err error
	if cs.wd, err = webdav.NewClient(hc, endpoint); err != nil {
		return nil, err
	}
	if cs.cal, err = caldav.NewClient(hc, endpoint); err != nil {
		return nil, err
	}
	if cs.card, err = carddav.NewClient(hc, endpoint); err != nil {
		return nil, err
	}
	return &cs, nil
}

func (ex *executor) doCall(ctx context.Context, c *DavCall, hc webdav.HTTPClient, endpoint string) callResult {
	cs, err := newClientSet(hc, endpoint)
	if err != nil {
		return callResult{Err: err}
	}
	return doCallWith(ctx, c, cs)
}

func doCallWith(ctx context.Context, c *DavCall, cs *clientSet) (res callResult) {
	defer func() {
		if r := recover(); r != nil {
			res.Panic = fmt.Sprintf("%v\n%s", r, debug.Stack())
		}
	}()
	switch c.Client {
	case "webdav":
		cl := cs.wd
		switch c.Fn {
		case "FindCurrentUserPrincipal":
			p, err := cl.FindCurrentUserPrincipal(ctx)
			res.Err = err
			if err == nil {
				res.Items = []callItem{{Path: p}}
			}
		case "Stat":
			fi, err := cl.Stat(ctx, c.Path)
			res.Err = err
			if err == nil {
				res.Items = []callItem{fileItem(fi)}
			}
		case "ReadDir":
			l, err := cl.ReadDir(ctx, c.Path, c.Flag)
			res.Err = err
			if err == nil {
				for i := range l {
					res.Items = append(res.Items, fileItem(&l[i]))
				}
			}
		case "Open":
			rc, err := cl.Open(ctx, c.Path)
			res.Err = err
			if err == nil {
				_, rerr := io.ReadAll(rc)
				rc.Close()
				res.Err = rerr
				res.ReadOK = rerr == nil
			}
		case "Create":
			wc, err := cl.Create(ctx, c.Path)
			res.Err = err
			if err == nil {
				// several writes: a caller keeps streaming whatever the server does
				for off := 0; off < len(c.Data); off += 8 {
					wc.Write(c.Data[off:min(off+8, len(c.Data))])
				}
				res.Err = wc.Close()
			}
		case "RemoveAll":
			res.Err = cl.RemoveAll(ctx, c.Path)
		case "Mkdir":
			res.Err = cl.Mkdir(ctx, c.Path)
		case "Copy":
			res.Err = cl.Copy(ctx, c.Path, c.Dest, &webdav.CopyOptions{NoOverwrite: c.Flag})
		case "Move":
			res.Err = cl.Move(ctx, c.Path, c.Dest, &webdav.MoveOptions{NoOverwrite: c.Flag})
		}
	case "caldav":
		cl := cs.cal
		calItem := func(o *caldav.CalendarObject) callItem {
			return callItem{Path: o.Path, HasData: o.Data != nil, Fields: fields("etag", o.ETag != "", "modtime", !o.ModTime.IsZero(), "size", o.ContentLength != 0)}
		}
		switch c.Fn {
		case "FindCurrentUserPrincipal":
			p, err := cl.FindCurrentUserPrincipal(ctx)
			res.Err = err
			if err == nil {
				res.Items = []callItem{{Path: p}}
			}
		case "FindCalendarHomeSet":
			p, err := cl.FindCalendarHomeSet(ctx, c.Path)
			res.Err = err
			if err == nil {
				res.Items = []callItem{{Path: p}}
			}
		case "FindCalendars":
			l, err := cl.FindCalendars(ctx, c.Path)
			res.Err = err
			for _, x := range l {
				res.Items = append(res.Items, callItem{Path: x.Path, Fields: fields("name", x.Name != "", "desc", x.Description != "", "size", x.MaxResourceSize != 0)})
			}
		case "QueryCalendar":
			q := &caldav.CalendarQuery{CompRequest: caldav.CalendarCompRequest{Name: "VCALENDAR", AllProps: true, AllComps: true},
				CompFilter: caldav.CompFilter{Name: "VCALENDAR", Comps: []caldav.CompFilter{{Name: "VEVENT"}}}}
			if c.Flag {
				q.CompFilter.Comps[0].Start = time.Date(2024, 1, 1, 0, 0, 0, 0, time.UTC)
				q.CompFilter.Comps[0].End = time.Date(2024, 1, 3, 0, 0, 0, 0, time.UTC)
			}
			l, err := cl.QueryCalendar(ctx, c.Path, q)
			res.Err = err
			for i := range l {
				res.Items = append(res.Items, calItem(&l[i]))
			}
		case "MultiGetCalendar":
			l, err := cl.MultiGetCalendar(ctx, c.Path, &caldav.CalendarMultiGet{Paths: c.Paths, CompRequest: caldav.CalendarCompRequest{Name: "VCALENDAR", AllProps: true, AllComps: true}})
			res.Err = err
			for i := range l {
				res.Items = append(res.Items, calItem(&l[i]))
			}
		case "GetCalendarObject":
			o, err := cl.GetCalendarObject(ctx, c.Path)
			res.Err = err
			if err == nil {
				res.Items = []callItem{calItem(o)}
				res.ReadOK = true
			}
		case "PutCalendarObject":
			cal := newEvent("client-put", "From the client", time.Date(2024, 3, 1, 9, 0, 0, 0, time.UTC))
			o, err := cl.PutCalendarObject(ctx, c.Path, cal)
			res.Err = err
			if err == nil {
				res.Items = []callItem{{Path: o.Path, Fields: fields("etag", o.ETag != "", "modtime", !o.ModTime.IsZero())}}
			}
		}
	case "carddav":
		cl := cs.card
		cardItem := func(o *carddav.AddressObject) callItem {
			return callItem{Path: o.Path, HasData: o.Card != nil, Fields: fields("etag", o.ETag != "", "modtime", !o.ModTime.IsZero(), "size", o.ContentLength != 0)}
		}
		switch c.Fn {
		case "HasSupport":
			res.Err = cl.HasSupport(ctx)
		case "FindAddressBookHomeSet":
			p, err := cl.FindAddressBookHomeSet(ctx, c.Path)
			res.Err = err
			if err == nil {
				res.Items = []callItem{{Path: p}}
			}
		case "FindAddressBooks":
			l, err := cl.FindAddressBooks(ctx, c.Path)
			res.Err = err
			for _, x := range l {
				res.Items = append(res.Items, callItem{Path: x.Path, Fields: fields("name", x.Name != "", "desc", x.Description != "", "size", x.MaxResourceSize != 0)})
			}
		case "QueryAddressBook":
			q := &carddav.AddressBookQuery{DataRequest: carddav.AddressDataRequest{AllProp: true},
				PropFilters: []carddav.PropFilter{{Name: "EMAIL", TextMatches: []carddav.TextMatch{{Text: "example.org"}}}}}
			if c.N > 0 {
				q.Limit = c.N
			}
			l, err := cl.QueryAddressBook(ctx, c.Path, q)
			res.Err = err
			for i := range l {
				res.Items = append(res.Items, cardItem(&l[i]))
			}
		case "MultiGetAddressBook":
			l, err := cl.MultiGetAddressBook(ctx, c.Path, &carddav.AddressBookMultiGet{Paths: c.Paths, DataRequest: carddav.AddressDataRequest{AllProp: true}})
			res.Err = err
			for i := range l {
				res.Items = append(res.Items, cardItem(&l[i]))
			}
		case "GetAddressObject":
			o, err := cl.GetAddressObject(ctx, c.Path)
			res.Err = err
			if err == nil {
				res.Items = []callItem{cardItem(o)}
				res.ReadOK = true
			}
		case "PutAddressObject":
			o, err := cl.PutAddressObject(ctx, c.Path, newCard("Client Put", "client@example.org"))
			res.Err = err
			if err == nil {
				res.Items = []callItem{{Path: o.Path, Fields: fields("etag", o.ETag != "", "modtime", !o.ModTime.IsZero())}}
			}
		case "SyncCollection":
			r, err := cl.SyncCollection(ctx, c.Path, &carddav.SyncQuery{SyncToken: c.Token, Limit: c.N, DataRequest: carddav.AddressDataRequest{AllProp: true}})
			res.Err = err
			if err == nil {
				for i := range r.Updated {
					o := &r.Updated[i]
					res.Items = append(res.Items, callItem{Path: o.Path, Fields: fields("etag", o.ETag != "", "modtime", !o.ModTime.IsZero())})
				}
				res.Dele = r.Deleted
			}
		}
	}
	return
}

// foreignSync is a small scripted sync-collection responder written from RFC
// 6578: the only client call go-webdav's own servers cannot answer.
func foreignSync(coll string, seed uint64) http.Handler {
	return http.HandlerFunc(func(w http.ResponseWriter, r *http.Request) {
		if r.Method != "REPORT" {
			http.Error(w, "only REPORT here", http.StatusMethodNotAllowed)
			return
		}
		io.Copy(io.Discard, r.Body)
		rr := rt.NewRand(seed)
		var b strings.Builder
		b.WriteString(xmlHdr + `<D:multistatus xmlns:D="DAV:">`)
		n := 1 + rr.Intn(6)
		tailFails := rr.Chance(0.3) // the failing members come last (after a limit's worth of good ones)
		for i := 0; i < n; i++ {
			p := fmt.Sprintf("%sc%d.vcf", coll, i)
			if tailFails && i == n-1 && rr.Chance(0.5) {
				fmt.Fprintf(&b, `<D:response><D:href>%s</D:href><D:status>HTTP/1.1 %s</D:status></D:response>`, p, rt.Pick(rr, []string{"403 Forbidden", "500 Internal Server Error", "423 Locked"}))
				continue
			}
			if (!tailFails && rr.Chance(0.3)) || (tailFails && i == n-1) {
				extra := rt.Pick(rr, []string{"", "", `<D:responsedescription>removed on the server</D:responsedescription>`, `<D:error><D:no-such-resource/></D:error><D:responsedescription>gone</D:responsedescription>`})
				fmt.Fprintf(&b, `<D:response><D:href>%s</D:href><D:status>HTTP/1.1 404 Not Found</D:status>%s</D:response>`, p, extra)
			} else {
				fmt.Fprintf(&b, `<D:response><D:href>%s</D:href><D:propstat><D:prop><D:getetag>"sync-%d"</D:getetag><D:getlastmodified>Mon, 01 Jan 2024 00:00:0%d GMT</D:getlastmodified></D:prop><D:status>HTTP/1.1 200 OK</D:status></D:propstat></D:response>`, p, i, i)
			}
		}
		switch rr.Intn(6) {
		case 0, 1, 2:
			fmt.Fprintf(&b, `<D:response><D:href>%s</D:href><D:propstat><D:prop><D:getetag>"coll"</D:getetag></D:prop><D:status>HTTP/1.1 200 OK</D:status></D:propstat></D:response>`, coll)
		case 3:
			// RFC 6578 section 3.6: the answer was truncated, said by a 507 on the collection itself
			fmt.Fprintf(&b, `<D:response><D:href>%s</D:href><D:status>HTTP/1.1 507 Insufficient Storage</D:status><D:error><D:number-of-matches-within-limits/></D:error></D:response>`, coll)
		}
		b.WriteString(`<D:sync-token>http://example.org/sync/42</D:sync-token></D:multistatus>`)
		w.Header().Set("Content-Type", `application/xml; charset="utf-8"`)
		w.WriteHeader(207)
		io.WriteString(w, b.String())
	})
}

// ---- the step ------------------------------------------------------------------------

func propField(name string) string {
	switch name {
	case "{DAV:}getetag":
		return "etag"
	case "{DAV:}getlastmodified":
		return "modtime"
	case "{DAV:}getcontentlength":
		return "size"
	case "{DAV:}getcontenttype":
		return "type"
	case "{DAV:}displayname":
		return "name"
	case "{" + nsCal + "}calendar-description", "{" + nsCard + "}addressbook-description":
		return "desc"
	case "{" + nsCal + "}max-resource-size", "{" + nsCard + "}max-resource-size":
		return "size"
	case "{" + nsCal + "}calendar-data", "{" + nsCard + "}address-data":
		return "data"
	}
	return ""
}

func (ex *executor) callStep(idx int, st *Step) {
	c := st.Call
	cfg := &ex.plan.Config
	class := c.Client + "." + c.Fn
	ex.res.Stats.Classes[class]++
	h := ex.h
	if c.Fn == "SyncCollection" {
		h = foreignSync(c.Path, rt.Mix(ex.plan.RunSeed, uint64(idx)))
	}
	if ex.bk != nil {
		ex.bk.begin(st.Faults)
	}
	tr := &c14Transport{ex: ex, h: h, faults: st.Faults}
	ctx, cancel := context.WithCancel(context.Background())
	defer cancel()
	var cancelAt time.Duration = -1
	stalled := false
	for _, f := range st.Faults {
		ex.res.Stats.FaultsPlan[f.Seam+":"+f.Kind]++
		if f.Kind == "stall" {
			stalled = true
			cancelAt = time.Duration(f.Arg) * time.Millisecond
		}
		if f.Seam == "cancel" {
			cancelAt = time.Duration(f.Arg) * time.Millisecond
		}
	}
	start := time.Now()
	if cancelAt == 0 {
		cancel()
	} else if cancelAt > 0 {
		time.AfterFunc(cancelAt, cancel)
	}
	endpoint := "http://dav.test" + strings.TrimSuffix(cfg.Prefix, "/") + "/"
	ex.log.Addf("step %d call %s(%q, dest=%q, paths=%v, flag=%v, n=%d) faults=%v", idx, class, c.Path, c.Dest, c.Paths, c.Flag, c.N, faultText(st.Faults))
	res := ex.doCall(ctx, c, &http.Client{Transport: tr}, endpoint)
	took := time.Since(start)
	ex.res.Stats.FakeNS += int64(took)
	errs := "nil"
	if res.Err != nil {
		// an error value that cannot even be printed (a nil pointer inside a
		// non-nil error) panics in the caller's hands: the call did not "return
		// without panicking" in any useful sense
		var pan string
		errs, pan = safeErrText(res.Err)
		if pan != "" {
			ex.res.Stats.Panics++
			ex.finding(Violation{Prop: "C14", Clause: "panic", Class: class + " error-value", Msg: fmt.Sprintf("the call returned an error value of type %T whose Error method panics: %s", res.Err, pan), Step: idx})
			return
		}
	}
	var last *trip
	for _, t := range tr.trips {
		ex.log.Addf("  trip %s %s real=%d delivered=%d cut=%d fault=%s rewrite=%q err=%v", t.Method, t.URI, t.RealStatus, t.Status, t.CutAt, t.Faulted, t.Rewritten, t.Err)
		last = t
		if t.Faulted != "" {
			seam := "resp"
			for _, f := range st.Faults {
				if f.Kind == t.Faulted {
					seam = f.Seam // counted under the name it was planned under
				}
			}
			ex.res.Stats.FaultsFired[seam+":"+t.Faulted]++
		}
	}
	if cancelAt >= 0 && !stalled && ctx.Err() != nil && took >= cancelAt {
		ex.res.Stats.FaultsFired["cancel:cancel"]++
	}
	ex.log.Addf("  = items=%d deleted=%v err=%s", len(res.Items), res.Dele, clipS(errs, 300))
	bad := func(clause, msg string) {
		ex.finding(Violation{Prop: "C14", Clause: clause, Class: class + faultClass(last), Msg: msg, Step: idx})
	}
	if res.Panic != "" {
		ex.res.Stats.Panics++
		bad("panic", "the client call panicked: "+res.Panic)
		return
	}
	for _, t := range tr.trips {
		if t.endless != nil && t.endless.Runaway {
			bad("hang", fmt.Sprintf("the server answered %d with an error page that never ends; the call read more than %d bytes of it instead of returning (against a real server it would never return)", t.Status, endlessLimit))
			return
		}
	}
	if last == nil {
		if res.Err == nil {
			bad("missing-error", "the call succeeded without a single request")
		}
		return
	}
	// every answer's body is closed by the time the call has returned, unless
	// the call hands the stream to its caller (Open)
	if c.Fn != "Open" {
		for _, t := range tr.trips {
			if t.closed != nil && !t.closed.done {
				ex.res.Stats.NT("C14|" + class + "|unclosed " + fmt.Sprint(t.Status/100) + "xx " + t.Header.Get("Content-Type"))
				bad("hang", fmt.Sprintf("the call returned but never closed the body of the %d answer to %s %s (Content-Type %q): its connection is never released, and with a bounded connection pool the next call waits for ever", t.Status, t.Method, t.URI, t.Header.Get("Content-Type")))
				return
			}
		}
	}
	ex.res.Stats.ByStatus[statusClass(last.Status)]++
	ex.res.Stats.NT("C14|" + class + faultClass(last) + fmt.Sprintf(" real=%d", last.RealStatus/100))
	if ex.bk != nil {
		for _, f := range ex.bk.Fired {
			ex.res.Stats.FaultsFired["backend:"+f.Kind]++
		}
	}

	// (6) a failed round trip or a cancellation is returned, wrapped
	if last.Err != nil {
		if res.Err == nil {
			bad("missing-error", fmt.Sprintf("the round trip failed with %q but the call returned no error", last.Err))
		} else if !errors.Is(res.Err, last.Err) {
			bad("error-without-code", fmt.Sprintf("the round trip failed with %q; the call returned %q, which does not wrap it", last.Err, res.Err))
		}
		if stalled && took < cancelAt {
			bad("cancel-ignored", fmt.Sprintf("the call returned after %v although the server stalled until the cancellation at %v", took, cancelAt))
		}
		return
	}
	// (3) not 2xx -> error carrying the status (and the DAV:error condition)
	if last.Status/100 != 2 {
		var he *internal.HTTPError
		switch {
		case res.Err == nil:
			bad("missing-error", fmt.Sprintf("the server answered %d but the call returned no error", last.Status))
		case !errors.As(res.Err, &he) || he.Code != last.Status:
			bad("error-without-code", fmt.Sprintf("the server answered %d; the call returned %q, which does not carry that status", last.Status, res.Err))
		case (last.Faulted == "status-daverror" || last.Faulted == "status-daverror-large") && last.CutAt < 0 && !strings.Contains(res.Err.Error(), "lock-token-submitted"):
			bad("dav-error-lost", fmt.Sprintf("the server answered %d with a DAV:error body naming lock-token-submitted; the error is %q", last.Status, res.Err))
		}
		return
	}
	// (3b) 2xx but not 207 where a multi-status is required
	if multistatusCalls[c.Fn] && last.Status != 207 {
		if res.Err == nil {
			bad("missing-error", fmt.Sprintf("the server answered %d where a 207 multi-status is required, but the call returned no error", last.Status))
		} else if !strings.Contains(res.Err.Error(), fmt.Sprint(last.Status)) {
			bad("error-without-code", fmt.Sprintf("the server answered %d where 207 is required; the error %q does not mention the status", last.Status, res.Err))
		}
		return
	}
	reads := multistatusCalls[c.Fn] || bodyCalls[c.Fn]
	// (4) body cut inside the document
	if last.CutAt >= 0 && reads {
		end := docEnd(last.Header.Get("Content-Type"), last.Body)
		if c.Fn == "Open" {
			end = len(last.Body)
		}
		inside := last.CutAt < end
		if inside && last.CutKind == "cut-eof" && c.Fn == "Open" {
			inside = false // a clean early end of a byte stream is not detectable above the transport
		}
		if inside && res.Err == nil {
			bad("value-from-cut-body", fmt.Sprintf("the response body (%d bytes, document ends at %d) was cut at byte %d (%s) but the call returned a value and no error", len(last.Body), end, last.CutAt, last.CutKind))
		}
		if inside {
			return
		}
	}
	// a multi-status damaged in its structure: the call returns (checked above);
	// whatever it returns as data must not stem from the damaged response
	if last.Rewritten != "" && (last.Faulted == "ms-no-href" || last.Faulted == "ms-two-hrefs" || last.Faulted == "ms-empty" || last.Faulted == "ms-status-garbage") {
		ex.probe("multistatus-damaged:" + last.Faulted)
		if res.Err == nil && (last.Faulted == "ms-no-href" || last.Faulted == "ms-two-hrefs") {
			for _, it := range res.Items {
				if it.Path == "/somewhere/else" || it.Path == "" && c.Fn != "FindCurrentUserPrincipal" {
					bad("failed-resource-as-data", fmt.Sprintf("the multi-status had a %s, yet the call returned an item with path %q from it", last.Rewritten, it.Path))
				}
			}
		}
		return
	}
	// (5a) a 207 body that is not XML cannot be interpreted
	if last.Faulted == "ms-ill-formed" && last.Rewritten != "" && multistatusCalls[c.Fn] {
		if _, perr := model.ParseXML(last.Body); perr != nil {
			ex.res.Stats.NT("C14|" + class + " ill-formed " + last.Rewritten)
			if res.Err == nil {
				bad("value-from-cut-body", fmt.Sprintf("the multi-status body is not well-formed XML (%s: %v), yet the call returned no error", last.Rewritten, perr))
			}
			return
		}
	}
	// (5) failing resources / properties inside a multi-status
	if last.Status == 207 && multistatusCalls[c.Fn] {
		ms, err := model.ParseMultiStatus(last.Body)
		if err == nil {
			failedRes := map[string]int{}
			failedProp := map[string]map[string]int{}
			for _, r := range ms.Responses {
				ref := model.ParseHref(r.Hrefs[0])
				if r.Status != 0 && r.Status/100 != 2 {
					failedRes[ref.Path] = r.Status
				}
				for _, p := range r.Props {
					if p.Status != 200 {
						if fld := propField(p.Name); fld != "" {
							if failedProp[ref.Path] == nil {
								failedProp[ref.Path] = map[string]int{}
							}
							failedProp[ref.Path][fld] = p.Status
						}
					}
				}
			}
			if res.Err == nil {
				for _, it := range res.Items {
					if code, ok := failedRes[it.Path]; ok {
						bad("failed-resource-as-data", fmt.Sprintf("%s is reported with status %d inside the multi-status, yet the call returned it as data", it.Path, code))
					}
					for fld, code := range failedProp[it.Path] {
						if it.Fields[fld] || (fld == "data" && it.HasData) {
							bad("failed-resource-as-data", fmt.Sprintf("%s: property (%s) is reported under status %d, yet the call returned a value for it", it.Path, fld, code))
						}
					}
				}
				// a property the call reads, reported with a failure other than
				// "not there" (404), is a failure of the call
				for path, flds := range failedProp {
					if c.Fn == "SyncCollection" && strings.TrimSuffix(path, "/") == strings.TrimSuffix(model.ParseHref(endpoint).Path+strings.TrimPrefix(c.Path, "/"), "/") || c.Fn == "SyncCollection" && strings.HasSuffix(strings.TrimSuffix(path, "/"), strings.TrimSuffix(c.Path, "/")) {
						continue // the collection's own entry: the call reads none of its properties
					}
					for fld, code := range flds {
						if code != 404 && code/100 != 2 && code/100 != 1 && code/100 != 3 {
							bad("missing-error", fmt.Sprintf("%s: property (%s) is reported under status %d inside the multi-status, but the call returned no error", path, fld, code))
						}
					}
				}
				for p, code := range failedRes {
					deleted := false
					for _, d := range res.Dele {
						deleted = deleted || d == p
					}
					if c.Fn == "SyncCollection" && code == 404 {
						if !deleted {
							bad("failed-resource-as-data", fmt.Sprintf("sync-collection: %s is reported 404 but is not listed as deleted", p))
						}
						continue
					}
					bad("missing-error", fmt.Sprintf("%s is reported with status %d inside the multi-status, but the call returned no error", p, code))
				}
			}
			anyFailing := len(ms.Responses) == 0
			for _, r := range ms.Responses {
				for _, p := range r.Props {
					anyFailing = anyFailing || p.Status != 200
				}
			}
			if c.Fn == "SyncCollection" && res.Err != nil && len(failedRes) > 0 && !anyFailing && (last.Faulted == "" || last.Faulted == "ms-response-status") {
				only404 := true
				for _, code := range failedRes {
					only404 = only404 && code == 404
				}
				if only404 {
					bad("failed-resource-as-data", fmt.Sprintf("sync-collection: the only failing members are reported 404 (= deleted), yet the whole call failed: %v", res.Err))
				}
			}
			if len(failedRes)+len(failedProp) > 0 || anyFailing {
				// the server itself reports a member, a property or everything as
				// missing/failed: an error is a correct outcome
				ex.probe("multistatus-with-failing-member")
				return
			}
		}
	}
	// (2) nothing went wrong on the wire: the outcome is the server's
	unfaulted := (last.Faulted == "" || last.Faulted == "status-keep-body" && last.Status == last.RealStatus || last.Faulted == "ms-neutral") && last.CutAt < 0
	if unfaulted && res.Err != nil && (ex.bk == nil || len(ex.bk.Fired) == 0) {
		bad("spurious-error", fmt.Sprintf("the exchange was not disturbed and the server answered %d, but the call failed: %v", last.Status, res.Err))
	}
}

func faultText(fs []Fault) string {
	var s []string
	for _, f := range fs {
		s = append(s, fmt.Sprintf("%s:%s@%d/%d", f.Seam, f.Kind, f.At, f.Arg))
	}
	sort.Strings(s)
	return strings.Join(s, ",")
}

func faultClass(t *trip) string {
	if t == nil {
		return " no-trip"
	}
	switch {
	case t.Faulted == "":
		return " undisturbed"
	case t.Faulted == "early-status":
		return fmt.Sprintf(" early-status %dxx", t.Status/100)
	case strings.HasPrefix(t.Faulted, "status-"):
		return fmt.Sprintf(" %s %dxx", t.Faulted, t.Status/100)
	case strings.HasPrefix(t.Faulted, "cut-"):
		pos := "inside"
		if t.CutAt >= docEnd(t.Header.Get("Content-Type"), t.Body) {
			pos = "after-end"
		} else if t.CutAt == 0 {
			pos = "at-0"
		}
		return " " + t.Faulted + " " + pos
	case strings.HasPrefix(t.Faulted, "ms-"):
		if t.Rewritten == "" {
			return " " + t.Faulted + " (not applicable)"
		}
		f := strings.Fields(t.Rewritten)
		return " " + t.Faulted + " " + f[len(f)-1]
	}
	return " " + t.Faulted
}

var _ = ical.MIMEType
