//go:build go1.25

package wdsim

func init() {
	Profiles["C01"] = []Profile{{Name: "history", Weight: 1, Gen: GenC01}}
	Profiles["C17"] = []Profile{{Name: "history", Weight: 1, Gen: GenC01}}
}
