//go:build go1.25

package wdsim

func init() {
	Profiles["C01"] = []Profile{{Name: "history", Weight: 1, Gen: GenC01}}
	Profiles["C02"] = []Profile{
		{Name: "refusals", Weight: 4, Gen: GenC02Refusals},
		{Name: "broken-uploads", Weight: 4, Gen: GenC02Broken},
		{Name: "disk-faults", Weight: 3, Gen: GenC02Disk},
		{Name: "broken-uploads-every-offset", Weight: 1, Gen: GenC02Exhaustive},
		{Name: "overlap", Weight: 4, Gen: GenC02Overlap},
	}
	Profiles["C03"] = []Profile{
		{Name: "hostile-paths", Weight: 7, Gen: GenC03},
		// "reads, creates, modifies and deletes nothing outside" also when a disk
		// call fails, an upload breaks or requests overlap: the fall-back and
		// clean-up paths are where a library reaches for os.TempDir or a raw path
		{Name: "disk-faults", Weight: 2, Gen: GenC02Disk},
		{Name: "broken-uploads", Weight: 1, Gen: GenC02Broken},
		{Name: "overlap", Weight: 1, Gen: GenC02Overlap},
	}
	Profiles["C04"] = []Profile{{Name: "conditional", Weight: 6, Gen: GenC04}, {Name: "dav-passthrough", Weight: 1, Gen: GenC04Passthrough}, {Name: "conditional-memfs", Weight: 3, Gen: GenC04Memfs}}
	Profiles["C14"] = []Profile{{Name: "client-faults", Weight: 10, Gen: GenC14}, {Name: "client-every-offset-and-status", Weight: 1, Gen: GenC14Exhaustive}}
	Profiles["C13"] = []Profile{{Name: "dav-server-faults", Weight: 8, Gen: GenC13}, {Name: "dav-every-offset", Weight: 1, Gen: GenC13Exhaustive}, {Name: "overlap", Weight: 2, Gen: GenC02Overlap}}
	Profiles["C05"] = []Profile{{Name: "api-clients", Weight: 1, Gen: GenC05}}
	Profiles["C18"] = []Profile{
		{Name: "concurrent", Weight: 1, Gen: GenC18Conc},
		{Name: "upload", Weight: 1, Gen: GenC18Upload},
		{Name: "concurrent-dav", Weight: 1, Gen: GenC18ConcDav},
	}
	Profiles["C18-calibration"] = []Profile{{Name: "calibration", Weight: 1, Gen: GenC18Calibrate}}
	Profiles["C17"] = []Profile{
		{Name: "history", Weight: 2, Gen: GenC01},
		{Name: "disk-error-kinds", Weight: 4, Gen: GenC17Disk},
		{Name: "hostile-paths", Weight: 2, Gen: GenC03},
		{Name: "refusals", Weight: 2, Gen: GenC02Refusals},
		{Name: "overlap", Weight: 2, Gen: GenC02Overlap},
	}
}
