//go:build go1.25

package wdsim

import (
	"bytes"
	"fmt"
	"io"
	"sort"
	"strings"
	"syscall"

	realos "os"
	realfp "path/filepath"

	"github.com/emersion/go-webdav/vsim/model"
	"github.com/emersion/go-webdav/vsim/rt"
)

// Overlapping requests (C02). One upload (A) stalls in its body stream - a
// slow client - while other requests (B1..Bn) are served from start to end;
// then A's stream goes on into its fault and A is answered with a failure.
// Only one goroutine is ever runnable: A is parked on a channel inside its
// body's Read while the Bs run, so the schedule is the plan.
//
// What A's failure may and may not do is decided without any model of the
// server: every B is bracketed by two snapshots of the store, and since A does
// nothing while it is parked, whatever differs between the two is B's doing.
// The tree expected after A's failure is the tree before A, plus what the
// acknowledged Bs did; a B that was itself refused must not have done anything.

// gatedBody parks the reader once, before the read at offset >= at.
type gatedBody struct {
	*FaultBody
	at      int
	passed  bool
	stalled chan struct{}
	release chan struct{}
}

func (g *gatedBody) Read(p []byte) (int, error) {
	if !g.passed && g.FaultBody.Delivered() >= g.at {
		g.passed = true
		close(g.stalled)
		<-g.release
	}
	return g.FaultBody.Read(p)
}

func (g *gatedBody) WriteTo(w io.Writer) (int64, error) {
	// keep io.Copy on the Read path (the gate lives there)
	var n int64
	buf := make([]byte, 32*1024)
	for {
		m, err := g.Read(buf)
		if m > 0 {
			k, werr := w.Write(buf[:m])
			n += int64(k)
			if werr != nil {
				return n, werr
			}
		}
		if err == io.EOF {
			return n, nil
		}
		if err != nil {
			return n, err
		}
	}
}

func entryEq(a model.Entry, aok bool, b model.Entry, bok bool) bool {
	if aok != bok {
		return false
	}
	if !aok {
		return true
	}
	if a.Dir != b.Dir {
		return false
	}
	return a.Dir || bytes.Equal(a.Data, b.Data)
}

func copySnap(s map[string]model.Entry) map[string]model.Entry {
	out := make(map[string]model.Entry, len(s))
	for k, v := range s {
		out[k] = v
	}
	return out
}

// applyDiff carries what changed between before and after over to dst. A
// file that was replaced by another file with the same bytes has changed too
// (the inode numbers tell).
func applyDiff(dst, before, after map[string]model.Entry, inoBefore, inoAfter map[string]uint64) (changed []string) {
	keys := map[string]bool{}
	for p := range before {
		keys[p] = true
	}
	for p := range after {
		keys[p] = true
	}
	for p := range keys {
		b, bok := before[p]
		a, aok := after[p]
		if entryEq(b, bok, a, aok) && (!aok || a.Dir || inoBefore[p] == inoAfter[p]) {
			continue
		}
		changed = append(changed, p)
		if aok {
			dst[p] = a
		} else {
			delete(dst, p)
		}
	}
	sort.Strings(changed)
	return changed
}

// inodes maps every stored path to its inode number.
func inodes(root string) map[string]uint64 {
	out := map[string]uint64{}
	var walk func(dir, rel string)
	walk = func(dir, rel string) {
		ents, err := realos.ReadDir(dir)
		if err != nil {
			return
		}
		for _, e := range ents {
			p := model.Join(rel, e.Name())
			full := realfp.Join(dir, e.Name())
			fi, err := realos.Lstat(full)
			if err != nil {
				continue
			}
			if st, ok := fi.Sys().(*syscall.Stat_t); ok {
				out[p] = st.Ino
			}
			if fi.IsDir() {
				walk(full, p)
			}
		}
	}
	walk(root, "/")
	return out
}

func (ex *executor) overlapStep(idx int, st *Step) {
	st = ex.resolve(idx, st)
	if ex.stop {
		return
	}
	s0 := ex.snapshot()
	ino0 := inodes(ex.w.Root)
	ex.seam.BeginStep(nil)
	ex.log.Addf("step %d overlap A: %s %q %v body=%dB gate=%d faults=%v during=%d", idx, st.Method, st.Target, st.Headers, len(st.Body), st.Gate, st.Faults, len(st.During))
	for _, f := range st.Faults {
		ex.res.Stats.FaultsPlan[f.Seam+":"+f.Kind]++
	}

	gate := &gatedBody{at: st.Gate, stalled: make(chan struct{}), release: make(chan struct{})}
	if st.ParkAt > 0 {
		// a reader, parked between two of its file-system calls
		ex.seam.Park = &seamGate{at: st.ParkAt - 1, stalled: gate.stalled, release: gate.release}
	} else {
		ex.gate = gate
	}
	var xa *Exchange
	aDone := make(chan struct{})
	go func() {
		defer close(aDone)
		xa = ex.serve(idx, st)
	}()
	overlapped := false
	select {
	case <-gate.stalled:
		overlapped = true
	case <-aDone:
	}
	ex.gate = nil
	ex.seam.Park = nil

	classA := classFromSnapshot(s0, &model.Request{Method: st.Method, Path: pathOfTarget(st.Target), H: stepHeaderMap(st)})
	expected := copySnap(s0)
	var did []string
	// what the stalled upload itself has created so far (its partial state):
	// files that did not exist when it began. Another request may move them
	// about; they stay the upload's own to write to, leave behind or remove.
	partial := map[uint64]bool{}
	var inoRelease map[string]uint64
	outsideBeforeStall := append([]string{}, ex.seam.Outside...) // the Bs' steps reset the monitor's list
	if overlapped {
		ex.probe("overlap-stalled")
		have := map[uint64]bool{}
		for _, i := range ino0 {
			have[i] = true
		}
		for p, i := range inodes(ex.w.Root) {
			if !have[i] {
				partial[i] = true
				if n := model.Base(p); len(n) > 3 {
					ex.log.partial = append(ex.log.partial, n)
				}
			}
		}
		sort.Strings(ex.log.partial)
		for bi := range st.During {
			if ex.stop {
				break
			}
			b := st.During[bi]
			if b.FromListing > 0 {
				hrefs := ex.lastHrefs(ex.log.partial)
				if len(hrefs) == 0 {
					ex.probe("overlap-no-listing-to-follow")
					continue
				}
				b.Target = hrefs[(b.FromListing-1)%len(hrefs)]
				ex.probe("overlap-followed-listing")
			}
			before, inoBefore := ex.snapshot(), inodes(ex.w.Root)
			ex.snap = before
			prev := ex.last
			ex.rawStep(idx, &b)
			if ex.last == prev || ex.last == nil {
				continue // not delivered
			}
			after := ex.snapshot()
			status := ex.last.Resp.Status
			ch := applyDiff(expected, before, after, inoBefore, inodes(ex.w.Root))
			if len(ch) > 0 {
				did = append(did, fmt.Sprintf("%s %s -> %d changed %s", b.Method, b.Target, status, strings.Join(ch, ",")))
			}
			// (a refused B that changed the tree has been reported by rawStep's
			// ordinary rule already: A does nothing while it is parked)
		}
		inoRelease = inodes(ex.w.Root)
		close(gate.release)
		<-aDone
	} else {
		ex.probe("overlap-answered-before-the-stall")
	}
	if xa == nil || xa.Skipped != "" {
		ex.snap = ex.snapshot()
		return
	}
	s2 := ex.snapshot()
	if len(partial) > 0 {
		// the upload's own partial files, wherever the other requests left
		// them, are not compared: they are the upload's to write to, to leave
		// behind or to remove
		for p, i := range inoRelease {
			if partial[i] {
				if e, ok := expected[p]; ok && !e.Dir {
					ex.probe("overlap-partial-file-relocated")
					delete(expected, p)
				}
			}
		}
		for p, i := range inodes(ex.w.Root) {
			// ... where they were when the upload went on; a partial file that
			// the failing upload itself moved somewhere else afterwards (its
			// commit) is compared like everything else
			if partial[i] && !s2[p].Dir && inoRelease[p] == i {
				delete(s2, p)
				delete(expected, p)
			}
		}
	}
	ex.res.Stats.ByMethod[st.Method]++
	ex.res.Stats.ByStatus[statusClass(xa.Resp.Status)]++
	if xa.BodyFailed || xa.BodyCut || xa.SilentCancel {
		ex.res.Stats.FaultsFired["req-body:"+xa.BodyFault.Kind]++
	}
	ex.log.Addf("  A -> %d %v body=%q", xa.Resp.Status, sortedHeader(xa.Resp.H), clipS(canonBody(&xa.Resp), 200))
	ex.last = xa

	bKinds := []string{}
	for _, b := range st.During {
		bKinds = append(bKinds, b.Method)
	}
	class := "overlap A=" + classA + " during=" + strings.Join(bKinds, "+")
	ex.res.Stats.Classes[class]++
	if xa.Panic != "" {
		ex.res.Stats.Panics++
		ex.finding(Violation{Prop: "C13", Clause: "panic", Class: class, Msg: "handler panicked: " + xa.Panic, Step: idx})
	}
	for _, leak := range ex.leaks {
		if where := findLeak(&xa.Resp, leak); where != "" && !requestCarries(st, leak) {
			ex.finding(Violation{Prop: "C17", Clause: "path-leak", Class: class, Msg: fmt.Sprintf("response %s contains the host path", where), Step: idx})
		}
	}
	if out := append(outsideBeforeStall, ex.seam.Outside...); len(out) > 0 {
		ex.finding(Violation{Prop: "C03", Clause: "outside-access", Class: class, Msg: fmt.Sprintf("file-system calls left the served root: %s", strings.ReplaceAll(strings.Join(out, ", "), ex.w.Sandbox, "$SB")), Step: idx})
	}
	if st.Method == "GET" && xa.Resp.Status == 200 && !xa.RespCut {
		// a complete answer: as many body bytes as it announces, whatever the
		// other requests did to the resource between two of its steps
		if cl := xa.Resp.H.Get("Content-Length"); cl != "" && cl != fmt.Sprint(len(xa.Resp.Body)) {
			ex.finding(Violation{Prop: "C13", Clause: "incomplete-response", Class: class, Msg: fmt.Sprintf("GET %s was answered 200 with Content-Length %s and a body of %d bytes (meanwhile: %s)", st.Target, cl, len(xa.Resp.Body), strings.Join(did, "; ")), Step: idx})
		}
	}
	if xa.BodyFailed && xa.Resp.Status/100 == 2 {
		ex.finding(Violation{Prop: "C02", Clause: "ack-after-broken-body", Class: class, Msg: fmt.Sprintf("the body stream failed after %d of %d bytes (%s) but the request was answered %d", xa.Delivered, len(st.Body), xa.BodyFault.Kind, xa.Resp.Status), Step: idx})
	}
	if xa.Resp.Status >= 400 {
		if overlapped && len(did) > 0 {
			ex.res.Stats.NT("C02|" + class)
			ex.probe("overlap-failure-after-acknowledged-change")
		}
		if d := model.DiffSnap(expected, s2); d != "" {
			clause := "tree-changed-on-broken-body"
			what := "the stored tree is not what it was before the request"
			if len(did) > 0 {
				clause = "overlap-destroyed"
				what = "the stored tree is not what it was before the request plus what the requests acknowledged meanwhile did (" + strings.Join(did, "; ") + ")"
			}
			ex.finding(Violation{Prop: "C02", Clause: clause, Class: class, Msg: fmt.Sprintf("a stalled %s %s was answered %d after its body stream had delivered %d of %d bytes (%s); %s: %s (compared: expected -> found)",
				st.Method, st.Target, xa.Resp.Status, xa.Delivered, len(st.Body), faultKind(xa.BodyFault), what, d), Step: idx})
		}
	}
	ex.snap = ex.snapshot()
}

func faultKind(f *Fault) string {
	if f == nil {
		return "no fault"
	}
	return f.Kind
}

func pathOfTarget(t string) string {
	ref := model.ParseHref(t)
	if ref.OK {
		return ref.Path
	}
	return t
}

func stepHeaderMap(st *Step) map[string]string {
	m := map[string]string{}
	for _, h := range st.Headers {
		m[canonHeader(h[0])] = h[1]
	}
	return m
}

func canonHeader(s string) string {
	b := []byte(strings.ToLower(s))
	up := true
	for i, c := range b {
		if up && c >= 'a' && c <= 'z' {
			b[i] = c - 32
		}
		up = c == '-'
	}
	return string(b)
}

// lastHrefs lists the hrefs of the last answer if it was a multi-status: those
// showing one of the given names first (the library may pick such names at
// random, and with them their place in the listing), then the others in the
// order of the listing.
func (ex *executor) lastHrefs(first []string) []string {
	if ex.last == nil || ex.last.Resp.Status != 207 {
		return nil
	}
	ms, err := model.ParseMultiStatus(ex.last.Resp.Body)
	if err != nil {
		return nil
	}
	var front, out []string
	for _, r := range ms.Responses {
	next:
		for _, h := range r.Hrefs {
			for _, n := range first {
				if strings.Contains(h, n) {
					front = append(front, h)
					continue next
				}
			}
			out = append(out, h)
		}
	}
	return append(front, out...)
}

// ---- generator ------------------------------------------------------------------

// GenC02Overlap: a short history, then one upload that stalls while one to
// three other requests - aimed at the same name, its parent, or what a listing
// shows - are served, and then breaks.
func GenC02Overlap(seed uint64, tier string) *Plan {
	g := newGen(seed, tier, "C02", "overlap")
	g.plan.Config.Judge = false
	g.plan.Config.Neighbour = false
	g.genSetup()
	for i, n := 0, g.r.Intn(4); i < n; i++ {
		g.commit(g.genRequest(), nil)
	}
	rounds := 1 + g.r.Intn(3)
	for k := 0; k < rounds; k++ {
		g.overlapRound()
		for i, n := 0, g.r.Intn(3); i < n; i++ {
			g.commit(g.genRequest(), nil)
		}
	}
	return g.plan
}

func (g *gen) overlapRound() {
	r := g.r
	var x string
	switch r.Weighted([]int{45, 40, 5, 5, 5}) {
	case 0:
		x = g.pickPath("missing")
	case 1:
		x = g.pickPath("file")
	case 2:
		x = g.pickPath("dir")
	case 3:
		x = g.pickPath("orphan")
	default:
		x = g.pickPath("through-file")
	}
	a := g.newStep("PUT", g.spell(x))
	a.Body = g.content()
	if len(a.Body) == 0 {
		a.Body = []byte("the stalled upload")
	}
	a.Chunk = g.chunk()
	a.Chunked = r.Chance(0.2)
	switch r.Weighted([]int{6, 2, 1, 1}) {
	case 1:
		a.set("If-None-Match", "*")
	case 2:
		a.set("If-Match", "*")
	case 3:
		a.set("If-Match", "${tag:current}")
	}
	f := g.bodyFault(len(a.Body))
	if r.Chance(0.85) {
		f.Kind = rt.Pick(r, []string{"unexpected-eof", "custom-error", "cancel"})
	}
	if f.At > len(a.Body) {
		f.At = len(a.Body)
	}
	a.Faults = []Fault{f}
	a.Gate = 0
	if f.At > 0 {
		a.Gate = r.Intn(f.At + 1)
	}
	if r.Chance(0.2) {
		// the slow client is only slow: after the stall the body arrives to
		// its end. Whether the upload then still succeeds is the server's
		// business (the world has changed under it); if it is refused, the
		// refusal must leave what the others stored, and nothing else
		a.Faults = nil
		a.Gate = r.Intn(len(a.Body) + 1)
	}
	if r.Chance(0.15) {
		// A is a reader: it is parked between two of its file-system calls
		// (after it looked the resource up, before it opened or listed it, ...)
		a.Method = rt.Pick(r, []string{"GET", "GET", "HEAD", "PROPFIND"})
		a.Body, a.Faults, a.Headers, a.Gate, a.Chunk, a.Chunked = nil, nil, nil, 0, 0, false
		if a.Method == "PROPFIND" {
			a.set("Depth", rt.Pick(r, []string{"0", "1", "infinity"}))
			if r.Chance(0.5) {
				a.Target = g.spell(model.Parent(x))
			}
		}
		a.ParkAt = 1 + r.Intn(6)
	}
	parent := model.Parent(x)
	nb := 1 + r.Weighted([]int{5, 3, 2})
	sawListing, follow := false, false
	for i := 0; i < nb; i++ {
		var b *Step
		pick := r.Weighted([]int{18, 10, 5, 8, 12, 8, 6, 12, 6, 8, 7})
		if follow {
			// a client that lists a collection usually goes on to address what it saw
			pick, follow = 8, false
		}
		switch pick {
		case 0: // the retry: the same name again
			b = g.newStep("PUT", g.spell(x))
			b.Body = g.content()
			b.Chunk = g.chunk()
			if r.Chance(0.25) {
				b.set("If-None-Match", "*")
			}
		case 1:
			b = g.newStep("DELETE", g.spell(x))
			if r.Chance(0.3) {
				b.set("If-Match", "*")
			}
		case 2:
			if parent != "/" {
				b = g.newStep("DELETE", g.spell(parent))
			} else {
				b = g.newStep("DELETE", g.spell(x))
			}
		case 3:
			b = g.newStep("MKCOL", g.spell(x))
		case 4: // something else arrives at the name
			m := rt.Pick(r, []string{"COPY", "MOVE"})
			b = g.newStep(m, g.spell(g.pickPath("existing")))
			if v, ok := g.destinationHeader(x); ok {
				b.set("Destination", v)
			}
			if v, ok := g.overwriteHeader(); ok {
				b.set("Overwrite", v)
			}
		case 5: // the name (or its parent) leaves
			m := rt.Pick(r, []string{"COPY", "MOVE"})
			src := x
			if parent != "/" && r.Chance(0.4) {
				src = parent
			}
			b = g.newStep(m, g.spell(src))
			if v, ok := g.destinationHeader(g.pickPath("missing")); ok {
				b.set("Destination", v)
			}
			if v, ok := g.overwriteHeader(); ok {
				b.set("Overwrite", v)
			}
		case 6: // a member below the name (which is then a collection)
			b = g.newStep("PUT", g.spell(model.Join(x, rt.Pick(r, g.names))))
			b.Body = g.content()
		case 7:
			b = g.newStep("PROPFIND", g.spell(parent))
			b.set("Depth", rt.Pick(r, []string{"1", "1", "infinity"}))
			sawListing = true
			if follow = r.Chance(0.7); follow && i == nb-1 {
				nb++
			}
		case 8:
			if sawListing {
				// address whatever the listing showed
				b = g.newStep(rt.Pick(r, []string{"PUT", "PUT", "DELETE", "GET", "MKCOL", "COPY", "MOVE"}), "/")
				b.FromListing = 1 + r.Intn(6)
				if b.Method == "COPY" || b.Method == "MOVE" {
					if v, ok := g.destinationHeader(g.pickPath("missing")); ok {
						b.set("Destination", v)
					}
				}
				if b.Method == "PUT" {
					b.Body = g.content()
				}
			} else {
				b = g.newStep("PROPFIND", g.spell(parent))
				b.set("Depth", "1")
				sawListing = true
			}
		case 9:
			b = g.newStep(rt.Pick(r, []string{"GET", "HEAD", "PROPFIND", "OPTIONS"}), g.spell(x))
		default:
			b = g.genRequest()
			b.Faults = nil
		}
		if (b.Method == "PUT" || b.Method == "DELETE") && len(b.Headers) == 0 && b.FromListing == 0 && r.Chance(0.2) {
			// conditional requests on OTHER resources while the upload is stalled
			b.set(rt.Pick(r, []string{"If-Match", "If-None-Match"}), rt.Pick(r, []string{"*", `"vsim-unknown-7"`}))
		}
		b.DelayNS = 0
		a.During = append(a.During, *b)
	}
	// the generator's own model only steers later picks: assume a conforming
	// server carried out the Bs and refused A
	g.plan.Steps = append(g.plan.Steps, *a)
	planHost = "dav.test"
	if g.plan.Config.Host != "" {
		planHost = g.plan.Config.Host
	}
	for i := range a.During {
		b := &a.During[i]
		if b.FromListing > 0 {
			continue
		}
		if req, _ := buildRequest(b); req != nil {
			g.j.Advance(&model.Request{Method: req.Method, Path: req.URL.Path, Host: req.Host, H: headerMap(req), Body: b.Body})
		}
	}
}
