//go:build go1.25

package wdsim

import (
	"fmt"
	"strings"

	"github.com/emersion/go-webdav/vsim/model"
	"github.com/emersion/go-webdav/vsim/rt"
)

func prefixTarget(prefix, target string) string { return prefix + target }

func prefixDestination(prefix, v string) string {
	for _, a := range []string{"http://dav.test", "https://dav.test:8443"} {
		if strings.HasPrefix(v, a+"/") {
			return a + prefix + strings.TrimPrefix(v, a)
		}
	}
	if strings.HasPrefix(v, "/") {
		return prefix + v
	}
	return v
}

// genTask generates the operation list of one task on its own imaginary tree
// and then moves everything below /t<id>.
func genTask(seed uint64, tier string, id int, maxOps int) TaskPlan {
	g := newGen(seed, tier, "C18", "task")
	g.noEscape = true // "/../x" below a prefix would leave the task's subtree
	prefix := fmt.Sprintf("/t%d", id)
	g.maxSize = 3000
	if g.r.Chance(0.15) {
		g.maxSize = 70000
	}
	g.genSetup()
	tp := TaskPlan{ID: id}
	for _, op := range g.plan.Setup {
		if op.Mkcol != "" {
			op.Mkcol = prefix + op.Mkcol
		} else {
			op.Put = prefix + op.Put
		}
		tp.Setup = append(tp.Setup, op)
	}
	n := g.r.Range(3, maxOps)
	apiShare := []float64{0.2, 0.5, 0.8}[g.r.Intn(3)]
	for i := 0; i < n; i++ {
		if g.r.Chance(apiShare) {
			a := &APICall{Fn: rt.Pick(g.r, apiFns)}
			var mr *model.Request
			nm := func(p string) string {
				return prefix + strings.TrimSuffix(p, "/") + map[bool]string{true: "/", false: ""}[p == "/"]
			}
			switch a.Fn {
			case "Stat":
				a.Name = nm(g.anyTarget())
			case "ReadDir":
				a.Name = nm(g.pickPath("dir"))
				a.Recursive = g.r.Chance(0.5)
			case "Open":
				a.Name = nm(g.pickPath("file"))
			case "Create":
				p := g.pickPath("missing")
				if g.r.Chance(0.45) {
					p = g.pickPath("file")
				} else if g.r.Chance(0.15) {
					p = g.pickPath("dir")
				}
				if p == "/" {
					p = g.pickPath("missing")
				}
				a.Name = nm(p)
				a.Data = g.content()
				for rest := len(a.Data); rest > 0 && len(a.Writes) < 5; {
					k := 1 + g.r.Intn(rest)
					a.Writes = append(a.Writes, k)
					rest -= k
				}
				mr = &model.Request{Method: "PUT", Path: p, H: map[string]string{}, Body: a.Data}
			case "Mkdir":
				p := g.pickPath("missing")
				if g.r.Chance(0.2) {
					p = g.pickPath("existing")
				}
				a.Name = nm(p)
				mr = &model.Request{Method: "MKCOL", Path: p, H: map[string]string{}}
			case "RemoveAll":
				p := g.pickPath("existing")
				if p == "/" {
					p = g.pickPath("missing")
				}
				a.Name = nm(p)
				mr = &model.Request{Method: "DELETE", Path: p, H: map[string]string{}}
			case "Copy", "Move":
				src := g.pickPath("existing")
				if src == "/" {
					src = g.pickPath("missing")
				}
				dst := g.pickPath("missing")
				if g.r.Chance(0.35) {
					dst = g.pickPath("existing")
				}
				if dst == "/" {
					dst = g.pickPath("missing")
				}
				a.Name, a.Dest = nm(src), nm(dst)
				a.NoOverwrite = g.r.Chance(0.4)
				a.NoRecursive = a.Fn == "Copy" && g.r.Chance(0.3)
				h := map[string]string{"Destination": canonicalTarget(dst), "Overwrite": "T"}
				if a.NoOverwrite {
					h["Overwrite"] = "F"
				}
				if a.Fn == "Copy" {
					h["Depth"] = "infinity"
					if a.NoRecursive {
						h["Depth"] = "0"
					}
				}
				mr = &model.Request{Method: strings.ToUpper(a.Fn), Path: src, H: h}
			}
			tp.Steps = append(tp.Steps, Step{API: a})
			if mr != nil {
				g.j.Advance(mr)
			}
			continue
		}
		var st *Step
		okStep := false
		for try := 0; try < 10 && !okStep; try++ {
			st = g.genRequest()
			// the root of the task's tree is never itself replaced or removed
			// (that would be a request on the shared parent collection)
			req, _ := buildRequest(st)
			if req == nil {
				continue
			}
			root := model.Normalise(req.URL.Path).Path == "/"
			if dv, ok := st.Header("Destination"); ok {
				if ref := model.ParseRef(dv); ref.OK && model.Normalise(ref.Path).Path == "/" {
					root = true
				}
				if ref := model.ParseRef(dv); ref.OK && ref.HasAuth && ref.Authority != "dav.test" && ref.Authority != "dav.test:8443" {
					root = true
				}
			}
			switch st.Method {
			case "PUT", "DELETE", "MKCOL", "COPY", "MOVE":
				if root {
					continue
				}
			}
			okStep = true
		}
		if !okStep {
			st = g.newStep("OPTIONS", "/")
		}
		g.commit(st, nil)
		st.Target = prefixTarget(prefix, st.Target)
		for hi, h := range st.Headers {
			if h[0] == "Destination" {
				st.Headers[hi][1] = prefixDestination(prefix, h[1])
			}
		}
		st.DelayNS = 0
		tp.Steps = append(tp.Steps, *st)
	}
	return tp
}

// sharedSteps interleaves operations on /shared/t<id>-<name> into a task.
func sharedSteps(r *rt.Rand, tp *TaskPlan, n int) {
	name := func() string {
		return fmt.Sprintf("/shared/t%d-%s", tp.ID, rt.Pick(r, []string{"a", "b", "c", "a b", "é"}))
	}
	seq := 0
	data := func() []byte {
		seq++
		k := rt.Pick(r, []int{0, 1, 10, 100, 3000, 40000})
		b := make([]byte, k)
		for i := range b {
			b[i] = byte('a' + (i+seq+tp.ID)%26)
		}
		return b
	}
	for i := 0; i < n; i++ {
		var st Step
		switch r.Intn(9) {
		case 0, 1:
			d := data()
			a := &APICall{Fn: "Create", Name: name(), Data: d}
			for rest := len(d); rest > 0 && len(a.Writes) < 4; {
				k := 1 + r.Intn(rest)
				a.Writes = append(a.Writes, k)
				rest -= k
			}
			st = Step{API: a}
		case 2:
			st = Step{API: &APICall{Fn: "Open", Name: name()}}
		case 3:
			st = Step{API: &APICall{Fn: "Stat", Name: name()}}
		case 4:
			st = Step{API: &APICall{Fn: "RemoveAll", Name: name()}}
		case 5:
			st = Step{API: &APICall{Fn: rt.Pick(r, []string{"Copy", "Move"}), Name: name(), Dest: name(), NoOverwrite: r.Chance(0.3)}}
		case 6, 7:
			st = Step{Method: "PUT", Target: canonicalTarget(name()), Body: data(), Chunk: rt.Pick(r, []int{0, 1, 7, 4096, -64})}
			if len(st.Body) > 0 && r.Chance(0.3) {
				// an upload that breaks off while the other tasks' uploads into the same collection go on
				st.Faults = []Fault{{Seam: "req-body", At: r.Intn(len(st.Body) + 1), Kind: rt.Pick(r, []string{"unexpected-eof", "custom-error"})}}
			}
		case 8:
			st = Step{Method: rt.Pick(r, []string{"GET", "HEAD", "DELETE", "PROPFIND"}), Target: canonicalTarget(name())}
			if st.Method == "PROPFIND" {
				st.Headers = [][2]string{{"Depth", "0"}}
			}
		}
		// (A listing of /shared itself is not generated: it reads what the other
		// tasks are changing, so it is not a request on disjoint resources - the
		// unchanged library answers it 404 when a member vanishes mid-walk.)
		at := r.Intn(len(tp.Steps) + 1)
		tp.Steps = append(tp.Steps[:at], append([]Step{st}, tp.Steps[at:]...)...)
	}
}

// GenC18Conc: N tasks on disjoint subtrees of one shared handler and client.
func GenC18Conc(seed uint64, tier string) *Plan {
	r := rt.NewRand(seed)
	p := &Plan{Format: 1, Property: "C18", Profile: "concurrent", RunSeed: seed,
		Config: Config{Store: "localfs", RootName: RootName, Endpoint: "http://dav.test/"}}
	n := 2 + r.Intn(5)
	maxOps := 12
	if tier == "thorough" {
		maxOps = 20
	}
	if r.Chance(0.5) {
		maxOps = 6
	}
	for i := 0; i < n; i++ {
		p.Tasks = append(p.Tasks, genTask(rt.Mix(seed, uint64(i), 0x7a5c), tier, i, maxOps))
	}
	if r.Chance(0.4) {
		// the tasks also work on members of ONE shared collection, each on its
		// own names (/shared/t<i>-...): disjoint resources, same parent
		for i := range p.Tasks {
			sharedSteps(r, &p.Tasks[i], r.Range(3, 10))
		}
	}
	p.SchedSeed = r.Uint64()
	p.Slots = rt.Pick(r, []int{1, 2, 4, 16, 64})
	if r.Chance(0.2) {
		p.Stall = 0.02
	}
	p.Config.Redirected = r.Chance(0.3)
	return p
}

// GenC18Calibrate: a small concurrent plan that touches the calibration word.
func GenC18Calibrate(seed uint64, tier string) *Plan {
	p := GenC18Conc(seed, tier)
	p.Profile = "calibration"
	p.Calibrate = true
	if len(p.Tasks) > 3 {
		p.Tasks = p.Tasks[:3]
	}
	// read-only requests: the probe is touched on every request, and a
	// calibration run should not depend on how the library handles writes
	for ti := range p.Tasks {
		id := p.Tasks[ti].ID
		p.Tasks[ti].Steps = nil
		for k := 0; k < 4; k++ {
			p.Tasks[ti].Steps = append(p.Tasks[ti].Steps, Step{Method: []string{"OPTIONS", "PROPFIND", "GET", "HEAD"}[k], Target: fmt.Sprintf("/t%d/", id)})
		}
	}
	return p
}
