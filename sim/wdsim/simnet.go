//go:build go1.25

package wdsim

import (
	"context"
	"errors"
	"io"
	"net"
	"os"
	"sync"
	"time"
)

// simnet: in-memory connections for "mode N" - the real net/http client and
// server talk over these inside the bubble. A connection is two one-way byte
// queues of bounded capacity; deadlines run on the bubble's fake clock; a
// connection can be reset after a number of bytes or stall in one direction.

var errConnReset = errors.New("simnet: connection reset by peer")

type halfPipe struct {
	mu       sync.Mutex
	cond     *sync.Cond
	buf      []byte
	capacity int
	closed   bool  // writer side closed: reader drains, then EOF
	broken   error // both directions fail with this
	total    int   // bytes ever written
	resetAt  int   // >0: break the connection once total reaches this
	stalled  bool  // reader never sees data (one-way stall)
	onBreak  func(error)
}

func newHalfPipe(capacity int) *halfPipe {
	h := &halfPipe{capacity: capacity}
	h.cond = sync.NewCond(&h.mu)
	return h
}

func (h *halfPipe) write(p []byte, deadline func() <-chan struct{}) (int, error) {
	n := 0
	h.mu.Lock()
	defer h.mu.Unlock()
	for len(p) > 0 {
		if h.broken != nil {
			return n, h.broken
		}
		if h.closed {
			return n, io.ErrClosedPipe
		}
		room := h.capacity - len(h.buf)
		if h.capacity == 0 {
			room = len(p) // unbuffered is modelled as "one write in flight"
			if len(h.buf) > 0 {
				room = 0
			}
		}
		if room <= 0 {
			if expired(deadline) {
				return n, os.ErrDeadlineExceeded
			}
			h.cond.Wait()
			continue
		}
		k := min(room, len(p))
		if h.resetAt > 0 && h.total+k >= h.resetAt {
			k = h.resetAt - h.total
			h.buf = append(h.buf, p[:k]...)
			h.total += k
			n += k
			h.broken = errConnReset
			if h.onBreak != nil {
				h.onBreak(errConnReset)
			}
			h.cond.Broadcast()
			return n, errConnReset
		}
		h.buf = append(h.buf, p[:k]...)
		h.total += k
		n += k
		p = p[k:]
		h.cond.Broadcast()
	}
	return n, nil
}

func expired(deadline func() <-chan struct{}) bool {
	if deadline == nil {
		return false
	}
	select {
	case <-deadline():
		return true
	default:
		return false
	}
}

func (h *halfPipe) read(p []byte, deadline func() <-chan struct{}) (int, error) {
	h.mu.Lock()
	defer h.mu.Unlock()
	for {
		if h.broken != nil {
			return 0, h.broken
		}
		if len(h.buf) > 0 && !h.stalled {
			n := copy(p, h.buf)
			h.buf = h.buf[n:]
			h.cond.Broadcast()
			return n, nil
		}
		if h.closed && !h.stalled {
			return 0, io.EOF
		}
		if expired(deadline) {
			return 0, os.ErrDeadlineExceeded
		}
		h.cond.Wait()
	}
}

func (h *halfPipe) closeWrite() {
	h.mu.Lock()
	h.closed = true
	h.cond.Broadcast()
	h.mu.Unlock()
}

func (h *halfPipe) breakWith(err error) {
	h.mu.Lock()
	if h.broken == nil {
		h.broken = err
	}
	h.cond.Broadcast()
	h.mu.Unlock()
}

func (h *halfPipe) wake() {
	h.mu.Lock()
	h.cond.Broadcast()
	h.mu.Unlock()
}

type simAddr string

func (a simAddr) Network() string { return "simnet" }
func (a simAddr) String() string  { return string(a) }

// simConn is one end of a connection.
type simConn struct {
	in, out    *halfPipe
	local, rem simAddr
	mu         sync.Mutex
	rdl, wdl   *dl
	closed     bool
}

// dl is a deadline on the fake clock.
type dl struct {
	ch    chan struct{}
	timer *time.Timer
}

func (c *simConn) setDL(slot **dl, t time.Time, wake func()) {
	// lock order: a half pipe's lock may be held while the connection's lock is
	// taken (read/write consult the deadline), never the other way round
	c.mu.Lock()
	if *slot != nil && (*slot).timer != nil {
		(*slot).timer.Stop()
	}
	if t.IsZero() {
		*slot = nil
		c.mu.Unlock()
		return
	}
	d := &dl{ch: make(chan struct{})}
	wait := time.Until(t)
	if wait <= 0 {
		close(d.ch)
	} else {
		d.timer = time.AfterFunc(wait, func() { close(d.ch); wake() })
	}
	*slot = d
	c.mu.Unlock()
	wake()
}

func (c *simConn) dlFn(slot **dl) func() <-chan struct{} {
	return func() <-chan struct{} {
		c.mu.Lock()
		defer c.mu.Unlock()
		if *slot == nil {
			return nil
		}
		return (*slot).ch
	}
}

func (c *simConn) Read(p []byte) (int, error) {
	if len(p) == 0 {
		return 0, nil
	}
	n, err := c.in.read(p, c.dlFn(&c.rdl))
	if err == io.ErrClosedPipe {
		err = net.ErrClosed
	}
	return n, err
}

func (c *simConn) Write(p []byte) (int, error) {
	c.mu.Lock()
	closed := c.closed
	c.mu.Unlock()
	if closed {
		return 0, net.ErrClosed
	}
	return c.out.write(p, c.dlFn(&c.wdl))
}

func (c *simConn) Close() error {
	c.mu.Lock()
	if c.closed {
		c.mu.Unlock()
		return nil
	}
	c.closed = true
	c.mu.Unlock()
	c.out.closeWrite()
	// the peer's writes fail from now on: nobody reads them any more
	c.in.breakWith(io.ErrClosedPipe)
	return nil
}

func (c *simConn) LocalAddr() net.Addr  { return c.local }
func (c *simConn) RemoteAddr() net.Addr { return c.rem }
func (c *simConn) SetDeadline(t time.Time) error {
	c.SetReadDeadline(t)
	c.SetWriteDeadline(t)
	return nil
}
func (c *simConn) SetReadDeadline(t time.Time) error {
	c.setDL(&c.rdl, t, c.in.wake)
	return nil
}
func (c *simConn) SetWriteDeadline(t time.Time) error {
	c.setDL(&c.wdl, t, c.out.wake)
	return nil
}

// netFaults is the fault plan of a simulated network.
type netFaults struct {
	Capacity    int  // bytes buffered per direction (0: one write in flight)
	ResetUpAt   int  // reset the connection after this many client->server bytes
	ResetDownAt int  // ... server->client bytes
	StallDown   bool // the client never sees the server's bytes
}

// simListener accepts the server ends of dialled connections.
type simListener struct {
	ch     chan net.Conn
	closed chan struct{}
	once   sync.Once
	f      netFaults
	conns  []*simConn
	mu     sync.Mutex
}

func newSimListener(f netFaults) *simListener {
	return &simListener{ch: make(chan net.Conn, 16), closed: make(chan struct{}), f: f}
}

func (l *simListener) Accept() (net.Conn, error) {
	select {
	case c := <-l.ch:
		return c, nil
	case <-l.closed:
		return nil, net.ErrClosed
	}
}
func (l *simListener) Close() error   { l.once.Do(func() { close(l.closed) }); return nil }
func (l *simListener) Addr() net.Addr { return simAddr("dav.test:80") }

// Dial is the DialContext of the client transport.
func (l *simListener) Dial(ctx context.Context, network, addr string) (net.Conn, error) {
	if err := ctx.Err(); err != nil {
		return nil, err
	}
	up, down := newHalfPipe(l.f.Capacity), newHalfPipe(l.f.Capacity)
	up.resetAt, down.resetAt = l.f.ResetUpAt, l.f.ResetDownAt
	down.stalled = l.f.StallDown
	up.onBreak = func(e error) { down.breakWith(e) }
	down.onBreak = func(e error) { up.breakWith(e) }
	cl := &simConn{in: down, out: up, local: "client:1", rem: "dav.test:80"}
	sv := &simConn{in: up, out: down, local: "dav.test:80", rem: "client:1"}
	l.mu.Lock()
	l.conns = append(l.conns, cl, sv)
	l.mu.Unlock()
	select {
	case l.ch <- sv:
		return cl, nil
	case <-l.closed:
		return nil, net.ErrClosed
	case <-ctx.Done():
		return nil, ctx.Err()
	}
}

// shutdown closes every connection ever made (teardown of a run).
func (l *simListener) shutdown() {
	l.Close()
	l.mu.Lock()
	defer l.mu.Unlock()
	for _, c := range l.conns {
		c.Close()
		c.in.breakWith(net.ErrClosed)
		c.out.breakWith(net.ErrClosed)
	}
}
