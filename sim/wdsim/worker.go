//go:build go1.25

package wdsim

import (
	"encoding/json"
	"fmt"
	realos "os"
	"runtime"
	"sort"
	"strings"
	"testing"
	"time"

	"github.com/emersion/go-webdav/vsim/rt"
)

// WorkerConfig is what the driver hands to one worker process.
type WorkerConfig struct {
	Property     string   `json:"property"`
	Tier         string   `json:"tier"`
	Seed         uint64   `json:"seed"`    // VERIF_SEED
	Worker       int      `json:"worker"`  // index of this worker
	Workers      int      `json:"workers"` // number of workers
	MaxRuns      int      `json:"max_runs"`
	BudgetS      float64  `json:"budget_s"`
	Out          string   `json:"out"`
	Base         string   `json:"base"`          // tmpfs directory for sandboxes
	ReplayDir    string   `json:"replay_dir"`    // where replay files are written
	Replay       string   `json:"replay"`        // replay this file instead of exploring
	Known        []string `json:"known"`         // signatures of known findings (reported, not fatal)
	Recheck      int      `json:"recheck"`       // every n-th run is executed twice and the logs compared
	LogHashes    bool     `json:"log_hashes"`    // emit per-run log hashes (determinism self-test)
	Profiles     []string `json:"profiles"`      // restrict to these profiles
	ProfilesFrom string   `json:"profiles_from"` // use the workloads of another property (cross-checks)
	FirstRun     int      `json:"first_run"`     // run indices start here (a long batch is split into rounds of fresh processes)
	DumpRun      int      `json:"dump_run"`      // >0: write the plan of run (dump_run-1) as a replay file and exit (used after a worker crash)
	RaceLog      string   `json:"race_log"`      // GORACE log_path prefix: race reports are attributed per run
	Calibrate    bool     `json:"calibrate"`     // run one calibration plan and report whether the detector saw the probe
}

// ViolationReport is one violation as reported to the driver.
type ViolationReport struct {
	Signature string `json:"signature"`
	Message   string `json:"message"`
	Replay    string `json:"replay"`
	RunSeed   uint64 `json:"run_seed"`
	Profile   string `json:"profile"`
	Steps     int    `json:"steps_minimised"`
	StepsOrig int    `json:"steps_original"`
	Execs     int    `json:"minimiser_executions"`
}

// WorkerOutput is what a worker writes for the driver.
type WorkerOutput struct {
	Property        string            `json:"property"`
	Worker          int               `json:"worker"`
	Stats           *Stats            `json:"stats"`
	Classes         []string          `json:"classes"`
	NonTrivial      []string          `json:"nontrivial"`
	Shapes          int               `json:"shapes"`
	ShapeKeys       []string          `json:"shape_keys"`
	Violations      []ViolationReport `json:"violations"`
	KnownHits       map[string]int    `json:"known_hits"`
	KnownMsgs       map[string]string `json:"known_msgs"`
	Samples         []json.RawMessage `json:"samples"`
	LogHashes       map[string]string `json:"log_hashes,omitempty"`
	Infra           string            `json:"infra"`
	WallS           float64           `json:"wall_s"`
	ByProfile       map[string]int    `json:"by_profile"`
	Replayed        *ReplayOutcome    `json:"replayed,omitempty"`
	Rechecked       int               `json:"rechecked"`
	RecheckMismatch int               `json:"recheck_mismatches"`
	Nondet          string            `json:"nondeterminism_example"`
	Survey          map[string][2]any `json:"survey,omitempty"` // full signature -> (count, first message)
	Goroutines      int               `json:"goroutines_at_end"`
	HeapMB          int               `json:"heap_mb_at_end"`
	CalibHit        bool              `json:"calibration_hit"`
	RaceSeen        int               `json:"race_reports_seen"`
}

// ReplayFile is the on-disk format of a violation (DESIGN appendix B).
type ReplayFile struct {
	Format    int      `json:"format"`
	Property  string   `json:"property"`
	Clause    string   `json:"clause"`
	Signature string   `json:"signature"`
	Message   string   `json:"message"`
	Engine    string   `json:"engine"`
	Profile   string   `json:"profile"`
	VerifSeed uint64   `json:"verif_seed"`
	RunSeed   uint64   `json:"run_seed"`
	Plan      *Plan    `json:"plan"`
	Race      bool     `json:"race,omitempty"` // needs the -race build; detection may need several fresh processes
	LogSHA256 string   `json:"event_log_sha256"`
	Log       []string `json:"event_log"`
}

type ReplayOutcome struct {
	Reproduced bool   `json:"reproduced"`
	SameLog    bool   `json:"same_log"`
	Signature  string `json:"signature"`
	Message    string `json:"message"`
}

// Profile is a named plan generator.
type Profile struct {
	Name   string
	Weight int
	Gen    func(seed uint64, tier string) *Plan
}

// Profiles lists, per property, the workloads that are explored.
var Profiles = map[string][]Profile{}

func pickProfile(ps []Profile, r *rt.Rand) Profile {
	w := make([]int, len(ps))
	for i, p := range ps {
		w[i] = p.Weight
	}
	return ps[r.Weighted(w)]
}

func signatureKnown(sig string, known []string) string {
	for _, k := range known {
		if k != "" && strings.HasPrefix(sig, k) {
			return k
		}
	}
	return ""
}

func sortedKeys(m map[string]int) []string {
	var ks []string
	for k := range m {
		ks = append(ks, k)
	}
	sort.Strings(ks)
	return ks
}

// raceWatcher reads what the race detector appended to its log file since the
// last call.
type raceWatcher struct {
	path string
	off  int64
}

func (rw *raceWatcher) fresh() string {
	if rw == nil || rw.path == "" {
		return ""
	}
	b, err := realos.ReadFile(rw.path)
	if err != nil || int64(len(b)) <= rw.off {
		return ""
	}
	s := string(b[rw.off:])
	rw.off = int64(len(b))
	return s
}

// classifyRaces splits race detector output into reports and says, per
// report, whether a frame of the library (not of the harness) is involved.
func classifyRaces(text string) (library []string, calibration int, harness []string) {
	for _, rep := range strings.Split(text, "==================") {
		if !strings.Contains(rep, "DATA RACE") {
			continue
		}
		lib := false
		for _, line := range strings.Split(rep, "\n") {
			l := strings.TrimSpace(line)
			if strings.HasPrefix(l, "github.com/emersion/go-webdav") && !strings.HasPrefix(l, "github.com/emersion/go-webdav/vsim/") {
				lib = true
			}
		}
		switch {
		case strings.Contains(rep, "calibrationProbe"):
			calibration++
		case lib:
			library = append(library, rep)
		default:
			harness = append(harness, rep)
		}
	}
	return
}

func raceClass(rep string) string {
	var fr []string
	for _, line := range strings.Split(rep, "\n") {
		l := strings.TrimSpace(line)
		if strings.HasPrefix(l, "github.com/emersion/go-webdav") && !strings.HasPrefix(l, "github.com/emersion/go-webdav/vsim/") {
			if i := strings.Index(l, "("); i > 0 {
				l = l[:i]
			}
			l = strings.TrimPrefix(l, "github.com/emersion/go-webdav")
			dup := false
			for _, x := range fr {
				dup = dup || x == l
			}
			if !dup && len(fr) < 3 {
				fr = append(fr, l)
			}
		}
	}
	return strings.Join(fr, " | ")
}

// RunWorker is the body of the worker test.
func RunWorker(t *testing.T, cfg *WorkerConfig) *WorkerOutput {
	startWall := time.Now()
	out := &WorkerOutput{Property: cfg.Property, Worker: cfg.Worker, Stats: NewStats(), KnownHits: map[string]int{}, KnownMsgs: map[string]string{}, ByProfile: map[string]int{}}
	if cfg.LogHashes {
		out.LogHashes = map[string]string{}
	}
	opts := Opts{Own: cfg.Property, Base: cfg.Base}
	var rw *raceWatcher
	if cfg.RaceLog != "" {
		rw = &raceWatcher{path: fmt.Sprintf("%s.%d", cfg.RaceLog, realos.Getpid())}
	}
	realos.MkdirAll(cfg.Base, 0o755)
	defer realos.RemoveAll(cfg.Base)

	if cfg.Replay != "" {
		out.Replayed = replayFile(t, cfg, opts, out)
		out.WallS = time.Since(startWall).Seconds()
		return out
	}

	profiles := Profiles[cfg.Property]
	if cfg.Calibrate {
		profiles = Profiles["C18-calibration"]
	}
	if cfg.ProfilesFrom != "" {
		profiles = Profiles[cfg.ProfilesFrom]
	}
	if len(cfg.Profiles) > 0 {
		var sel []Profile
		for _, p := range profiles {
			for _, n := range cfg.Profiles {
				if p.Name == n {
					sel = append(sel, p)
				}
			}
		}
		profiles = sel
	}
	if len(profiles) == 0 {
		out.Infra = "no profile for property " + cfg.Property
		return out
	}
	propSeed := rt.MixS(cfg.Seed, cfg.Property)
	nondet := ""
	for i := cfg.FirstRun + cfg.Worker; i < cfg.MaxRuns; i += cfg.Workers {
		if cfg.BudgetS > 0 && time.Since(startWall).Seconds() > cfg.BudgetS {
			break
		}
		if cfg.DumpRun > 0 {
			i = cfg.DumpRun - 1
		}
		runSeed := rt.Mix(propSeed, uint64(i))
		pr := pickProfile(profiles, rt.NewRand(rt.Mix(runSeed, 0x9f0f11e)))
		plan := pr.Gen(runSeed, cfg.Tier)
		if cfg.DumpRun > 0 {
			rf := &ReplayFile{Format: 1, Property: cfg.Property, Clause: "process-crash", Signature: cfg.Property + "/process-crash [" + pr.Name + "]",
				Message: "the worker process died while executing this plan (fatal runtime error inside the library: out of memory, stack overflow, concurrent map access, ...)",
				Engine:  "wdsim", Profile: pr.Name, VerifSeed: cfg.Seed, RunSeed: runSeed, Plan: plan}
			realos.MkdirAll(cfg.ReplayDir, 0o755)
			path := fmt.Sprintf("%s/%s-%d-%x-crash.json", cfg.ReplayDir, cfg.Property, cfg.Seed, runSeed)
			b, _ := json.MarshalIndent(rf, "", " ")
			realos.WriteFile(path, b, 0o644)
			out.Violations = append(out.Violations, ViolationReport{Signature: rf.Signature, Message: rf.Message, Replay: path, RunSeed: runSeed, Profile: pr.Name, Steps: len(plan.Steps), StepsOrig: len(plan.Steps)})
			break
		}
		// a marker, so that the driver knows which run killed the process if it dies
		realos.WriteFile(cfg.Out+".cur", []byte(fmt.Sprintf("%d", i+1)), 0o644)
		out.ByProfile[pr.Name]++
		res := Execute(t, plan.Clone(), opts)
		out.Stats.Merge(res.Stats)
		if cfg.LogHashes {
			out.LogHashes[fmt.Sprintf("%d", i)] = res.Log.Hash()
		}
		if res.Infra != "" {
			out.Infra = fmt.Sprintf("run %d seed %#x: %s", i, runSeed, res.Infra)
			break
		}
		raceViolation := false
		if txt := rw.fresh(); txt != "" {
			lib, calib, harness := classifyRaces(txt)
			out.RaceSeen += len(lib) + calib + len(harness)
			if calib > 0 {
				out.CalibHit = true
			}
			if len(harness) > 0 {
				out.Infra = fmt.Sprintf("run %d seed %#x: the race detector reports a race without any library frame (a harness bug):\n%s", i, runSeed, clipS(harness[0], 4000))
				break
			}
			if len(lib) > 0 && (cfg.Property == "C18" || cfg.Property == "") {
				v := Violation{Prop: "C18", Clause: "race", Class: raceClass(lib[0]), Msg: "the race detector reports a data race on library state:\n" + clipS(lib[0], 6000)}
				res.Violations = append([]Violation{v}, res.Violations...)
				raceViolation = true
			}
		}
		modeN := plan.Upload != nil && plan.Upload.Mode == "N" // net/http's selects choose at random: verdict-level determinism only
		if cfg.Recheck > 0 && (i/cfg.Workers)%cfg.Recheck == 0 && len(res.Violations) == 0 && !raceViolation && !modeN {
			again := Execute(t, plan.Clone(), opts)
			out.Rechecked++
			if again.Log.Hash() != res.Log.Hash() {
				if len(again.Violations) > 0 {
					// the second execution of the same plan shows a violation the
					// first one did not: report it
					res = again
				} else if out.RecheckMismatch++; nondet == "" {
					// Not fatal yet: a library that keeps state across requests
					// makes runs depend on earlier runs; if that breaks a property
					// a later run reports it. Without any violation this is
					// reported as harness trouble at the end.
					nondet = fmt.Sprintf("run %d seed %#x is not deterministic: two executions of the same plan gave different event logs\n%s", i, runSeed, firstDiff(res.Log.Lines, again.Log.Lines))
				}
			}
		}
		if len(out.Samples) < 2 && len(plan.Steps) <= 12 {
			b, _ := json.Marshal(samplePlan(plan))
			out.Samples = append(out.Samples, b)
		}
		if len(res.Violations) == 0 {
			if res.Stuck {
				break
			}
			continue
		}
		v := res.Violations[0]
		if k := signatureKnown(v.Signature(), cfg.Known); k != "" {
			if out.Survey == nil {
				out.Survey = map[string][2]any{}
			}
			if e, ok := out.Survey[v.Signature()]; ok {
				out.Survey[v.Signature()] = [2]any{e[0].(int) + 1, e[1]}
			} else {
				out.Survey[v.Signature()] = [2]any{1, v.Msg}
			}
			out.KnownHits[k]++
			if _, ok := out.KnownMsgs[k]; !ok {
				out.KnownMsgs[k] = v.String()
			}
			continue
		}
		// a new violation: minimise, write the replay file, stop this worker
		var min *Plan
		var minRes *RunResult
		execs := 0
		if raceViolation || res.Stuck {
			// the detector reports a given race once per process, and a stuck run
			// leaves its goroutines behind: a re-execution here cannot confirm
			// either, a fresh process (vcheck replay) can
			min, minRes = plan, res
		} else {
			min, minRes, execs = Minimise(t, plan, &v, opts, 300, 45*time.Second)
		}
		rep := ViolationReport{Signature: v.Signature(), Message: v.Msg, RunSeed: runSeed, Profile: pr.Name, StepsOrig: len(plan.Steps), Steps: len(min.Steps), Execs: execs}
		final := &v
		log := res.Log
		if minRes != nil {
			if mv := sameFailure(minRes, &v); mv != nil {
				final = mv
				log = minRes.Log
			}
		} else {
			rep.Message = "(could not be reproduced by re-executing its plan; reported from the original run) " + rep.Message
		}
		rep.Signature = final.Signature()
		rep.Message = final.Msg
		rf := &ReplayFile{Race: raceViolation, Format: 1, Property: final.Prop, Clause: final.Clause, Signature: final.Signature(), Message: final.Msg,
			Engine: "wdsim", Profile: pr.Name, VerifSeed: cfg.Seed, RunSeed: runSeed, Plan: min, LogSHA256: log.Hash(), Log: log.Lines}
		realos.MkdirAll(cfg.ReplayDir, 0o755)
		path := fmt.Sprintf("%s/%s-%d-%x.json", cfg.ReplayDir, cfg.Property, cfg.Seed, runSeed)
		b, _ := json.MarshalIndent(rf, "", " ")
		if err := realos.WriteFile(path, b, 0o644); err != nil {
			out.Infra = "cannot write replay file: " + err.Error()
		}
		rep.Replay = path
		out.Violations = append(out.Violations, rep)
		break
	}
	// A few mismatching re-executions are what a library that picks names at
	// random (temporary files that a failed clean-up leaves visible) looks like;
	// many mean the harness or the library is not reproducible.
	out.Nondet = nondet
	if nondet != "" && len(out.Violations) == 0 && out.Infra == "" && out.RecheckMismatch > 3 && out.RecheckMismatch*10 > out.Rechecked {
		out.Infra = fmt.Sprintf("%d of %d re-executed runs gave a different event log; first: %s", out.RecheckMismatch, out.Rechecked, nondet)
	}
	var ms runtime.MemStats
	runtime.ReadMemStats(&ms)
	out.Goroutines, out.HeapMB = runtime.NumGoroutine(), int(ms.HeapAlloc>>20)
	out.Classes = sortedKeys(out.Stats.Classes)
	out.NonTrivial = sortedKeys(out.Stats.NonTrivial)
	out.Shapes = len(out.Stats.Shapes)
	out.ShapeKeys = sortedKeys(out.Stats.Shapes)
	out.WallS = time.Since(startWall).Seconds()
	return out
}

// hashedKeys returns short hashes of the keys (for distinct counting across workers).
func hashedKeys(m map[string]int) []string {
	out := make([]string, 0, len(m))
	for k := range m {
		out = append(out, fmt.Sprintf("%016x", rt.MixS(0, k)))
	}
	sort.Strings(out)
	return out
}

func firstDiff(a, b []string) string {
	keep := func(l []string) []string {
		var out []string
		for _, s := range l {
			if !strings.Contains(s, " disk ") { // not hashed either (see Log.Hash)
				out = append(out, s)
			}
		}
		return out
	}
	a, b = keep(a), keep(b)
	for i := 0; i < len(a) && i < len(b); i++ {
		if a[i] != b[i] {
			return fmt.Sprintf("line %d:\n  first:  %s\n  second: %s", i, a[i], b[i])
		}
	}
	return fmt.Sprintf("lengths differ: %d vs %d", len(a), len(b))
}

// samplePlan trims big bodies so a sample stays readable.
func samplePlan(p *Plan) *Plan {
	c := p.Clone()
	for i := range c.Steps {
		if len(c.Steps[i].Body) > 64 {
			c.Steps[i].Body = append(c.Steps[i].Body[:64:64], []byte("...(truncated in sample)")...)
		}
	}
	for i := range c.Setup {
		if len(c.Setup[i].Data) > 64 {
			c.Setup[i].Data = append(c.Setup[i].Data[:64:64], []byte("...(truncated in sample)")...)
		}
	}
	return c
}

func replayFile(t *testing.T, cfg *WorkerConfig, opts Opts, out *WorkerOutput) *ReplayOutcome {
	b, err := realos.ReadFile(cfg.Replay)
	if err != nil {
		out.Infra = "cannot read replay file: " + err.Error()
		return nil
	}
	var rf ReplayFile
	if err := json.Unmarshal(b, &rf); err != nil {
		out.Infra = "cannot parse replay file: " + err.Error()
		return nil
	}
	opts.Own = rf.Property
	res := Execute(t, rf.Plan.Clone(), opts)
	out.Stats.Merge(res.Stats)
	ro := &ReplayOutcome{}
	if rf.Race && cfg.RaceLog != "" {
		rw := &raceWatcher{path: fmt.Sprintf("%s.%d", cfg.RaceLog, realos.Getpid())}
		lib, _, _ := classifyRaces(rw.fresh())
		if len(lib) > 0 {
			ro.Reproduced = true
			ro.Signature = "C18/race [" + raceClass(lib[0]) + "]"
			ro.Message = clipS(lib[0], 4000)
			ro.SameLog = res.Log.Hash() == rf.LogSHA256
		}
		return ro
	}
	for _, v := range res.Violations {
		if v.Prop == rf.Property && v.Clause == rf.Clause {
			ro.Reproduced = true
			ro.Signature = v.Signature()
			ro.Message = v.Msg
			break
		}
	}
	ro.SameLog = res.Log.Hash() == rf.LogSHA256
	if !ro.SameLog {
		ro.Message += "\nlog difference: " + firstDiff(rf.Log, res.Log.Lines)
	}
	return ro
}
