//go:build go1.25

package wdsim

import (
	"crypto/md5"
	"encoding/base64"
	"fmt"
	"strings"

	"github.com/emersion/go-webdav/vsim/model"
	"github.com/emersion/go-webdav/vsim/rt"
)

// ---- C02: refusals, broken uploads, disk faults ------------------------------

// wouldRefuse asks the generator's model whether a conforming server refuses.
func (g *gen) wouldRefuse(st *Step, hints map[string]string) bool {
	req, _ := buildRequest(st)
	if req == nil {
		return false
	}
	mr := &model.Request{Method: req.Method, Path: req.URL.Path, Host: req.Host, H: headerMap(req), Body: st.Body, CondHint: hints}
	c := *g.j
	c.T = g.j.T.Clone()
	return !c.Advance(mr)
}

// condHeaders adds If-Match / If-None-Match placeholders to a step and returns
// the hints that tell the generator's model what they will mean at run time.
func (g *gen) condHeaders(st *Step, targetIsDir bool) map[string]string {
	hints := map[string]string{}
	pick := func(h string) {
		var v, hint string
		k := g.r.Weighted([]int{12, 25, 14, 8, 12, 12, 6, 5})
		if targetIsDir && ((k >= 1 && k <= 3) || k >= 6) {
			k = 4 // collections never get an announced tag: only * or an unknown tag
		}
		switch k {
		case 0:
			v = "*"
		case 1:
			v, hint = "${tag:current}", "current"
		case 2:
			v, hint = "${tag:stale}", "differs"
		case 3:
			v, hint = "${tag:other}", "differs"
		case 4:
			v, hint = fmt.Sprintf("\"vsim-unknown-%d\"", g.r.Intn(100)), "differs"
			if g.r.Chance(0.15) {
				v = rt.Pick(g.r, []string{`"*"`, `"**"`, `"W/"`, `" "`, `"0"`}) // well-formed tags that look like something else
			} else if g.r.Chance(0.25) && !targetIsDir {
				// well-formed tags that resemble the current one: what proxies, other
				// representations and sloppy clients make of it
				v = rt.Pick(g.r, []string{`"${tagin:current}-gzip"`, `"${tagin:current}-br"`, `"${tagin:current};gzip"`, `"${tagin:current} "`, `" ${tagin:current}"`, `"${tagin:current}0"`, `"x${tagin:current}"`, `"${tagin:current}--gzip"`, `"${tagin:current}:1"`})
			}
		case 5:
			v = rt.Pick(g.r, []string{"abc", "\"abc", "abc\"", "W/\"abc\"", "'abc'", "d234ccf525242401", "**", "\"", "W/*"})
		case 6: // malformed values built around the server's own current tag
			v = rt.Pick(g.r, []string{"${tag:current}x", "${tag:current} junk", "${tag:current};q=1", "x${tag:current}", "W/${tag:current}", "${tag:current}\""})
		case 7: // lists: valid HTTP, "not a quoted string" for the statement
			if g.r.Chance(0.5) {
				v, hint = "\"0\", ${tag:current}", "list-with-current"
			} else {
				v, hint = "\"0\", \"vsim-unknown-1\"", "list-without-current"
			}
		}
		st.set(h, v)
		if hint != "" {
			hints[h] = hint
		}
	}
	switch g.r.Weighted([]int{45, 35, 20}) {
	case 0:
		pick("If-Match")
	case 1:
		pick("If-None-Match")
	default:
		pick("If-Match")
		pick("If-None-Match")
	}
	return hints
}

func (g *gen) isDir(p string) bool {
	n := g.j.T.N[p]
	return n != nil && n.Dir
}

func (g *gen) condRequest() (*Step, map[string]string) {
	var p string
	put := g.r.Chance(0.6)
	switch g.r.Weighted([]int{55, 20, 15, 5, 5}) {
	case 0:
		p = g.pickPath("file")
	case 1:
		p = g.pickPath("missing")
	case 2:
		p = g.pickPath("dir")
	case 3:
		p = g.pickPath("orphan")
	default:
		p = g.pickPath("through-file")
	}
	if p == "/" {
		p = g.pickPath("missing")
	}
	var st *Step
	if put {
		st = g.newStep("PUT", g.spell(p))
		st.Body = g.content()
		st.Chunk = g.chunk()
	} else {
		st = g.newStep("DELETE", g.spell(p))
	}
	hints := g.condHeaders(st, g.isDir(p))
	return st, hints
}

// GenC02Refusals: the general workload biased towards requests the model
// refuses (at least half of the operations), including failing preconditions.
func GenC02Refusals(seed uint64, tier string) *Plan {
	g := newGen(seed, tier, "C02", "refusals")
	g.plan.Config.Judge = false
	g.genSetup()
	if len(g.plan.Setup) < 3 {
		for i := 0; i < 3; i++ {
			p := g.pickPath("missing")
			if g.r.Chance(0.5) {
				g.plan.Setup = append(g.plan.Setup, SetupOp{Mkcol: p})
				g.j.T.Mkcol(p)
			} else {
				d := g.content()
				g.plan.Setup = append(g.plan.Setup, SetupOp{Put: p, Data: d})
				g.j.T.PutFile(p, d)
			}
		}
	}
	n := g.stepCount()
	for i := 0; i < n; i++ {
		wantRefusal := g.r.Chance(0.65)
		var st *Step
		var hints map[string]string
		for try := 0; try < 8; try++ {
			if g.r.Chance(0.25) {
				st, hints = g.condRequest()
			} else {
				st, hints = g.genRequest(), nil
			}
			if !wantRefusal || g.wouldRefuse(st, hints) {
				break
			}
		}
		g.entityHeaders(st)
		g.commit(g.goneClient(st), hints)
	}
	return g.plan
}

// entityHeaders adds headers about the entity that a client may send along
// with a PUT and that a server is free to ignore or to verify - before it
// stores anything (used where no model judges the status: C02, C17).
func (g *gen) entityHeaders(st *Step) {
	if st.Method != "PUT" || !g.r.Chance(0.12) {
		return
	}
	sum := md5.Sum(st.Body)
	right := base64.StdEncoding.EncodeToString(sum[:])
	switch g.r.Intn(6) {
	case 0:
		st.set("Content-MD5", right)
	case 1:
		other := md5.Sum(append([]byte("x"), st.Body...))
		st.set("Content-MD5", base64.StdEncoding.EncodeToString(other[:]))
	case 2:
		st.set("Content-MD5", rt.Pick(g.r, []string{"not base64!", "", "AAAA", right[:len(right)-2]}))
	case 3:
		st.set("Digest", "md5="+right)
		st.set("Content-Language", "en")
	case 4:
		st.set("Content-Encoding", rt.Pick(g.r, []string{"identity", "gzip"}))
	default:
		st.set("X-Expected-Entity-Length", fmt.Sprint(len(st.Body)+g.r.Intn(2)))
	}
}

func (g *gen) bodyFault(n int) Fault {
	var at int
	switch g.r.Weighted([]int{2, 2, 2, 6}) {
	case 0:
		at = 0
	case 1:
		at = n
	case 2:
		at = rt.Pick(g.r, []int{1, n - 1, 4096, 32768, 32767, 32769, n / 2})
		if at < 0 || at > n {
			at = n / 2
		}
	default:
		at = g.r.Intn(n + 1)
	}
	kind := rt.Pick(g.r, []string{"unexpected-eof", "custom-error", "cancel", "unexpected-eof", "custom-error", "cancel", "cancel-silent", "cancel-at-eof"})
	return Fault{Seam: "req-body", At: at, Kind: kind}
}

// GenC02Broken: every PUT of the history gets a body-stream fault.
func GenC02Broken(seed uint64, tier string) *Plan {
	g := newGen(seed, tier, "C02", "broken-uploads")
	g.plan.Config.Judge = false
	g.genSetup()
	n := g.stepCount()
	for i := 0; i < n; i++ {
		if g.r.Chance(0.55) {
			var p string
			switch g.r.Weighted([]int{50, 35, 5, 5, 5}) {
			case 0:
				p = g.pickPath("file")
			case 1:
				p = g.pickPath("missing")
			case 2:
				p = g.pickPath("dir")
			case 3:
				p = g.pickPath("orphan")
			default:
				p = g.pickPath("through-file")
			}
			st := g.newStep("PUT", g.spell(p))
			st.Body = g.content()
			if len(st.Body) == 0 && g.r.Chance(0.7) {
				st.Body = []byte("nonempty")
			}
			st.Chunk = g.chunk()
			if g.r.Chance(0.9) {
				st.Faults = []Fault{g.bodyFault(len(st.Body))}
				if g.r.Chance(0.12) {
					// a second fault inside the handling of the first: the
					// clean-up after the broken upload meets a disk error
					st.Faults = append(st.Faults, g.diskFault(10))
				}
			}
			g.entityHeaders(st)
			g.commit(g.goneClient(st), nil)
			continue
		}
		st := g.genRequest()
		switch st.Method {
		case "DELETE", "MKCOL", "COPY", "MOVE":
			if len(st.Body) == 0 && g.r.Chance(0.12) {
				// a body on a method that has no use for one, and it breaks off
				st.Body = []byte(rt.Pick(g.r, []string{"x", "ignored body\n", "<?xml version=\"1.0\"?><D:lockinfo xmlns:D=\"DAV:\"/>"}))
				st.Chunked = g.r.Chance(0.5)
				st.Faults = append(st.Faults, g.bodyFault(len(st.Body)))
			}
		}
		g.commit(g.goneClient(st), nil)
	}
	return g.plan
}

// goneClient: the request context is cancelled - before the handler starts, or
// just before its k-th file-system call - although every stream stays healthy
// (a deadline of some middleware, a client that hung up after its last byte).
func (g *gen) goneClient(st *Step) *Step {
	if len(st.Faults) == 0 && g.r.Chance(0.1) {
		if g.r.Chance(0.3) {
			st.Faults = append(st.Faults, Fault{Seam: "ctx", Kind: "before"})
		} else {
			st.Faults = append(st.Faults, Fault{Seam: "ctx", Kind: "at-call", At: g.r.Intn(14)})
		}
	}
	return st
}

// GenC02Exhaustive cuts one small upload at every offset with every kind
// (thorough tier): one plan per (existing?, size, offset, kind) drawn by seed.
func GenC02Exhaustive(seed uint64, tier string) *Plan {
	g := newGen(seed, tier, "C02", "broken-uploads-every-offset")
	g.plan.Config.Judge = false
	g.names = plainNames
	g.spellP = 0
	r := g.r
	size := r.Range(1, 64)
	old := g.content()
	g.plan.Setup = append(g.plan.Setup, SetupOp{Put: "/f", Data: old}, SetupOp{Mkcol: "/d"})
	g.j.T.PutFile("/f", old)
	g.j.T.Mkcol("/d")
	body := make([]byte, size)
	for i := range body {
		body[i] = byte('A' + i%26)
	}
	for at := 0; at <= size; at++ {
		for _, kind := range []string{"unexpected-eof", "custom-error", "cancel", "cancel-silent"} {
			target := "/f"
			if r.Chance(0.3) {
				target = "/d/new"
			}
			st := g.newStep("PUT", target)
			st.Body = body
			st.Chunk = rt.Pick(r, []int{0, 1, -8, 7})
			st.Faults = []Fault{{Seam: "req-body", At: at, Kind: kind}}
			g.commit(st, nil)
		}
	}
	return g.plan
}

// (ENOENT/ENOTDIR/EEXIST/EISDIR: what a call meets when another process or request removed, replaced or created the thing in between)
var diskErrnos = []string{"EACCES", "EIO", "ENOSPC", "EROFS", "EMFILE", "ENAMETOOLONG", "EBUSY", "EXDEV", "ENOTEMPTY", "EDQUOT", "EPERM", "EINTR", "ENOENT", "ENOENT", "ENOTDIR", "EEXIST", "EISDIR"}

func (g *gen) diskFault(maxOrd int) Fault {
	if g.r.Chance(0.15) {
		return Fault{Seam: "disk", At: g.r.Intn(maxOrd), Kind: "short-write", Arg: g.r.Intn(40)}
	}
	return Fault{Seam: "disk", At: g.r.Intn(maxOrd), Kind: rt.Pick(g.r, diskErrnos)}
}

// GenC02Disk: histories in which requests (mostly PUTs) meet one injected disk
// error at a seeded seam-call ordinal.
func GenC02Disk(seed uint64, tier string) *Plan {
	g := newGen(seed, tier, "C02", "disk-faults")
	g.plan.Config.Judge = false
	g.genSetup()
	n := g.stepCount()
	for i := 0; i < n; i++ {
		var st *Step
		if g.r.Chance(0.6) {
			p := g.pickPath("file")
			if g.r.Chance(0.4) {
				p = g.pickPath("missing")
			}
			st = g.newStep("PUT", g.spell(p))
			st.Body = g.content()
			if len(st.Body) == 0 {
				st.Body = []byte("x")
			}
			st.Chunk = g.chunk()
		} else {
			st = g.genRequest()
		}
		if g.r.Chance(0.6) {
			st.Faults = append(st.Faults, g.diskFault(10))
		}
		g.entityHeaders(st)
		g.commit(st, nil)
	}
	return g.plan
}

// ---- C04: conditional requests from several clients ----------------------------

func GenC04(seed uint64, tier string) *Plan {
	g := newGen(seed, tier, "C04", "conditional")
	g.plan.Config.Clients = 2 + g.r.Intn(3)
	// few files, so that tags go stale because another client wrote in between
	if len(g.names) > 3 {
		g.names = g.names[:3]
	}
	nf := 1 + g.r.Intn(3)
	for i := 0; i < nf; i++ {
		p := g.pickPath("missing")
		d := g.content()
		op := SetupOp{Put: p, Data: d}
		if g.r.Chance(0.2) {
			// a file that was not written "now" and not through the server
			op.MTime = rt.Pick(g.r, []string{"epoch", "ancient", "future", "odd-ns"})
		}
		g.plan.Setup = append(g.plan.Setup, op)
		g.j.T.PutFile(p, d)
	}
	if g.r.Chance(0.6) {
		p := g.pickPath("missing")
		g.plan.Setup = append(g.plan.Setup, SetupOp{Mkcol: p})
		g.j.T.Mkcol(p)
	}
	n := g.stepCount()
	for i := 0; i < n; i++ {
		switch g.r.Weighted([]int{50, 14, 10, 8, 6, 6, 6}) {
		case 0:
			st, hints := g.condRequest()
			g.commit(g.goneClient(st), hints)
		case 1: // unconditional PUT by "another client": makes remembered tags stale
			p := g.pickPath("file")
			st := g.newStep("PUT", g.spell(p))
			st.Body = g.content()
			g.commit(st, nil)
		case 2:
			g.commit(g.newStep(rt.Pick(g.r, []string{"GET", "HEAD"}), g.spell(g.pickPath("file"))), nil)
		case 3:
			st := g.newStep("PROPFIND", g.spell(g.pickPath("existing")))
			st.set("Depth", rt.Pick(g.r, []string{"0", "1", "infinity"}))
			g.commit(st, nil)
		case 4:
			g.commit(g.newStep("DELETE", g.spell(g.pickPath("existing"))), nil)
		case 5:
			st := g.newStep(rt.Pick(g.r, []string{"COPY", "MOVE"}), g.spell(g.pickPath("file")))
			dst := g.pickPath("missing")
			if g.r.Chance(0.4) {
				dst = g.pickPath("file")
			}
			if v, ok := g.destinationHeader(dst); ok {
				st.set("Destination", v)
			}
			g.commit(st, nil)
		default:
			g.commit(g.genRequest(), nil)
		}
	}
	return g.plan
}

// GenC04Memfs: the same stale-tag histories against the in-memory store, whose
// entity tags are arbitrary strings (quotes, backslashes, non-ASCII, control
// characters) and whose preconditions are evaluated with the public
// ConditionalMatch helpers only: the codec part of C04.
func GenC04Memfs(seed uint64, tier string) *Plan {
	p := GenC04(seed, tier)
	p.Profile = "conditional-memfs"
	p.Config.Store = "memfs"
	p.Config.MemfsSeed = rt.Mix(seed, 0x7a95)
	return p
}

// ---- C03: hostile paths ----------------------------------------------------------

var hostileSegs = []string{
	"..", ".", "", "%2e%2e", "%2E%2E", "%2e.", ".%2E", "..%2f", "..%2F", "%2f", "%2F..", "%5c", "%5C..", "..%5c", "\\", "..\\", "..\\..\\",
	"%00", "a%00b", "%c0%ae%c0%ae", "%c0%af", "%e0%80%ae", "%ef%bc%8e%ef%bc%8e", "%u002e%u002e", "....", ".../", "....//", "..;", "..;/", ";/..", "%252e%252e", "%2e%2e%2f",
	RootName + "-evil", "../" + RootName + "-evil", RootName + ".bak", "../" + RootName + ".bak", "sibling", "../sibling", "../sibling/secret.txt", "../canary.txt", "canary.txt", "..%2fcanary.txt", "%2e%2e%2fcanary.txt",
	"a", "b", "a/..", "a/../..", "a/../../..", ". ", ".. ", " ..", "..%20", "%20..", "...", "~", "~root", "$HOME", "%7e", "con", "nul", "a.", "a ", "*", "?", "%3f", "%23", "#",
}

func (g *gen) hostilePath(sandbox bool) string {
	var b strings.Builder
	n := 1 + g.r.Intn(6)
	switch g.r.Intn(12) {
	case 0:
		b.WriteString("http://dav.test")
	case 1:
		b.WriteString("//dav.test")
	case 2:
		b.WriteString("http://evil.example")
	}
	for i := 0; i < n; i++ {
		if g.r.Chance(0.92) {
			b.WriteByte('/')
		}
		switch g.r.Weighted([]int{70, 10, 8, 4, 3, 5}) {
		case 0:
			b.WriteString(rt.Pick(g.r, hostileSegs))
		case 1:
			b.WriteString(g.encodeSeg(rt.Pick(g.r, g.names), true))
		case 2: // random bytes pushed through percent-encoding
			for _, c := range g.r.Bytes(1 + g.r.Intn(6)) {
				b.WriteString(hexEsc(c, g.r.Chance(0.5)))
			}
		case 3:
			b.WriteString(strings.Repeat(rt.Pick(g.r, []string{"A", "../", "%2e%2e/", "a/"}), 50+g.r.Intn(2000)))
		case 4:
			b.WriteString("${abs:" + rt.Pick(g.r, []string{"canary.txt", "sibling/secret.txt", RootName + "-evil/x.txt", ""}) + "}")
		case 5:
			b.WriteString(strings.Repeat("../", 1+g.r.Intn(12)) + rt.Pick(g.r, []string{"canary.txt", "sibling", RootName + "-evil/x.txt", "etc/passwd", ""}))
		}
	}
	if g.r.Chance(0.2) {
		b.WriteString(rt.Pick(g.r, []string{"/", "/.", "/..", "?x=../..", "#../.."}))
	}
	return b.String()
}

// GenC03: histories whose request-targets and Destination values come from a
// traversal grammar crossed with every method; only confinement is judged.
func GenC03(seed uint64, tier string) *Plan {
	g := newGen(seed, tier, "C03", "hostile-paths")
	g.plan.Config.Judge = false
	g.plan.Config.Hostile = true
	g.genSetup()
	n := g.stepCount()
	hm := []string{"OPTIONS", "GET", "HEAD", "PUT", "DELETE", "MKCOL", "COPY", "MOVE", "PROPFIND", "PROPPATCH", "LOCK", "POST"}
	if g.r.Chance(0.03) {
		g.plan.Config.RootForm = "missing-parent"
		g.plan.Config.Neighbour = false
	}
	reconfAt := -1
	if g.r.Chance(0.12) {
		reconfAt = 1 + g.r.Intn(n)
	}
	for i := 0; i < n; i++ {
		if i == reconfAt {
			// an operator points the running handler at another directory
			g.plan.Steps = append(g.plan.Steps, Step{Kind: "reconfigure", DelayNS: 1000})
		}
		if g.r.Chance(0.35) {
			g.commit(g.genRequest(), nil) // keeps a tree alive for the hostile requests to aim at
			continue
		}
		m := rt.Pick(g.r, hm)
		var st *Step
		hostileTarget := g.r.Chance(0.7)
		if hostileTarget {
			st = g.newStep(m, g.hostilePath(true))
			if !strings.HasPrefix(st.Target, "/") && !strings.HasPrefix(st.Target, "http") {
				st.Target = "/" + st.Target
			}
		} else {
			st = g.newStep(m, g.spell(g.anyTarget()))
		}
		switch m {
		case "PUT":
			st.Body = []byte("hostile payload")
		case "COPY", "MOVE":
			if !hostileTarget || g.r.Chance(0.6) {
				st.set("Destination", g.hostilePath(true))
			} else {
				st.set("Destination", g.spell(g.pickPath("missing")))
			}
			if g.r.Chance(0.5) {
				st.set("Overwrite", rt.Pick(g.r, []string{"T", "F"}))
			}
		case "PROPFIND":
			st.set("Depth", rt.Pick(g.r, []string{"0", "1", "infinity"}))
		}
		g.plan.Steps = append(g.plan.Steps, *st)
	}
	return g.plan
}

// ---- C17: error kinds from the disk seam -------------------------------------------

// GenC17Disk: general histories in which many requests meet an injected OS
// error of a kind a healthy tmpfs never produces.
func GenC17Disk(seed uint64, tier string) *Plan {
	g := newGen(seed, tier, "C17", "disk-error-kinds")
	g.plan.Config.Judge = false
	g.genSetup()
	if g.r.Chance(0.04) {
		g.pathMaxLadder()
	}
	n := g.stepCount()
	for i := 0; i < n; i++ {
		st := g.genRequest()
		var hints map[string]string
		if g.r.Chance(0.2) {
			// conditional requests take other paths through the same file-system calls
			st, hints = g.condRequest()
		}
		_ = hints
		if g.r.Chance(0.7) {
			st.Faults = append(st.Faults, g.diskFault(8))
			if g.r.Chance(0.2) {
				st.Faults = append(st.Faults, g.diskFault(12))
			}
		}
		g.commit(st, nil)
	}
	return g.plan
}

// pathMaxLadder: a tree whose host paths end up on both sides of PATH_MAX. No
// request can create a name beyond the limit, but a MOVE of an ancestor into a
// collection with a long name pushes what is below it over: the kernel then
// answers ENAMETOOLONG for members of collections that can still be opened.
// Fifteen levels of long names, then a ladder of a hundred one-letter levels
// with a file on every rung; after the MOVE the limit falls somewhere on the
// ladder (wherever the sandbox lives), and every rung is listed and read.
func (g *gen) pathMaxLadder() {
	if g.j.T.N["/mv"] != nil || strings.HasPrefix(g.plan.Config.RootForm, "missing") {
		return
	}
	add := func(p string) {
		g.plan.Setup = append(g.plan.Setup, SetupOp{Mkcol: p})
		g.j.T.Mkcol(p)
	}
	long := "/" + strings.Repeat("T", 250)
	add(long)
	p := "/mv"
	add(p)
	for i := 0; i < 14; i++ {
		p = model.Join(p, strings.Repeat("L", 250))
		add(p)
	}
	p = model.Join(p, strings.Repeat("M", 200))
	add(p)
	var rungs []string
	for i := 0; i < 100; i++ {
		p = model.Join(p, "d")
		add(p)
		f := model.Join(p, "f")
		g.plan.Setup = append(g.plan.Setup, SetupOp{Put: f, Data: []byte("rung")})
		g.j.T.PutFile(f, []byte("rung"))
		rungs = append(rungs, p)
	}
	mv := g.newStep("MOVE", "/mv")
	mv.set("Destination", long+"/mv")
	g.commit(mv, nil)
	for i, r := range rungs {
		r = long + r
		st := g.newStep("PROPFIND", r)
		st.set("Depth", "1")
		g.commit(st, nil)
		switch i % 8 {
		case 1:
			g.commit(g.newStep("GET", r+"/f"), nil)
		case 3:
			st := g.newStep("PUT", r+"/new")
			st.Body = []byte("x")
			g.commit(st, nil)
		case 5:
			st := g.newStep("COPY", r+"/f")
			st.set("Destination", "/copied-"+fmt.Sprint(i))
			g.commit(st, nil)
		case 7:
			st := g.newStep("PROPFIND", r)
			st.set("Depth", rt.Pick(g.r, []string{"0", "infinity"}))
			g.commit(st, nil)
		}
	}
}
