//go:build go1.25

package wdsim

import (
	"context"
	"errors"
	"io"

	"github.com/emersion/go-webdav/vsim/rt"
)

// ErrInjected is the custom error kind of broken body streams.
var ErrInjected = errors.New("vsim: injected stream failure")

// FaultBody is a request or response body stream with seeded chunking and one
// optional fault at a byte offset.
type FaultBody struct {
	Data   []byte
	Chunk  int // 0 whole, n>0 fixed, <0 random sizes from rng
	Rng    *rt.Rand
	Fault  *Fault // nil: none
	Cancel context.CancelFunc
	OnRead func(n int, err error) // optional observer / yield point
	// EOFWithLast: the healthy end of the stream is reported together with the
	// last bytes (n > 0, io.EOF), as net/http does for bodies of announced
	// length, instead of by a separate (0, io.EOF)
	EOFWithLast bool

	off        int
	silentDone bool
	Failed     bool // the fault's error was returned to the reader
	CutClean   bool // a clean EOF was returned before the end of Data
	SawEOF     bool // the reader saw io.EOF at the real end
	Closed     bool
	Reads      int
}

func (b *FaultBody) limit() int {
	if b.Fault != nil && (b.Fault.Kind == "cancel-silent" || b.Fault.Kind == "cancel-at-eof") {
		return len(b.Data)
	}
	if b.Fault != nil && b.Fault.At < len(b.Data) {
		if b.Fault.At < 0 {
			return 0
		}
		return b.Fault.At
	}
	if b.Fault != nil && b.Fault.Kind != "clean-eof" {
		return len(b.Data) // error right at the end, instead of EOF
	}
	return len(b.Data)
}

func (b *FaultBody) Read(p []byte) (n int, err error) {
	b.Reads++
	rt.Tick()
	defer func() {
		if b.OnRead != nil {
			b.OnRead(n, err)
		}
	}()
	if b.Closed {
		return 0, errors.New("http: invalid Read on closed Body")
	}
	if b.Fault != nil && b.Fault.Kind == "cancel-silent" && !b.silentDone && b.off >= b.Fault.At {
		// the context is cancelled while the stream itself stays healthy
		b.silentDone = true
		if b.Cancel != nil {
			b.Cancel()
		}
	}
	lim := b.limit()
	if b.off >= lim {
		if b.Fault != nil && b.Fault.Kind == "cancel-at-eof" && b.Cancel != nil {
			// the client goes away right after its last byte
			b.Cancel()
			b.silentDone = true
		}
		if b.Fault != nil && (b.Fault.At <= len(b.Data)) && b.Fault.Kind != "cancel-silent" && b.Fault.Kind != "cancel-at-eof" {
			switch b.Fault.Kind {
			case "clean-eof":
				if lim < len(b.Data) {
					b.CutClean = true
				} else {
					b.SawEOF = true
				}
				return 0, io.EOF
			case "unexpected-eof":
				b.Failed = true
				return 0, io.ErrUnexpectedEOF
			case "custom-error":
				b.Failed = true
				return 0, ErrInjected
			case "cancel":
				b.Failed = true
				if b.Cancel != nil {
					b.Cancel()
				}
				return 0, context.Canceled
			}
		}
		b.SawEOF = true
		return 0, io.EOF
	}
	if len(p) == 0 {
		return 0, nil
	}
	n = len(p)
	switch {
	case b.Chunk > 0 && n > b.Chunk:
		n = b.Chunk
	case b.Chunk < 0 && b.Rng != nil:
		if m := 1 + b.Rng.Intn(1+(-b.Chunk)); n > m {
			n = m
		}
	}
	if n > lim-b.off {
		n = lim - b.off
	}
	copy(p, b.Data[b.off:b.off+n])
	b.off += n
	if b.EOFWithLast && b.off == len(b.Data) && (b.Fault == nil || b.Fault.Kind == "cancel-silent") {
		b.SawEOF = true
		return n, io.EOF
	}
	return n, nil
}

func (b *FaultBody) Close() error { b.Closed = true; return nil }

// SilentCancel reports whether the context was cancelled without a stream error.
func (b *FaultBody) SilentCancel() bool { return b.silentDone }

// Delivered is the number of bytes handed to the reader.
func (b *FaultBody) Delivered() int { return b.off }
