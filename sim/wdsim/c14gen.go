//go:build go1.25

package wdsim

import (
	"strings"

	"github.com/emersion/go-webdav/vsim/rt"
)

var statusFaultKinds = []string{"status-empty", "status-text", "status-long-text", "status-daverror", "status-daverror-large", "status-xml-garbage", "status-html", "status-other-type", "status-keep-body", "early-status"}

// GenC14 drives every public client method of the three packages against the
// real handlers while the transport damages the exchange.
func GenC14(seed uint64, tier string) *Plan {
	r := rt.NewRand(seed)
	pl := &Plan{Format: 1, Property: "C14", Profile: "client-faults", RunSeed: seed, Config: Config{Store: "localfs", RootName: RootName}}
	cfg := &pl.Config
	cfg.Server = rt.Pick(r, []string{"caldav", "carddav", "webdav-mem"})
	cfg.Prefix = rt.Pick(r, []string{"", "", "/dav"})
	cfg.WorldSeed = r.Uint64()
	if cfg.Server == "webdav-mem" {
		cfg.Store = "memfs"
		cfg.MemfsSeed = r.Uint64()
		cfg.Prefix = ""
		pl.Setup = []SetupOp{{Mkcol: "/d"}, {Put: "/d/f.txt", Data: []byte("hello world")}, {Put: "/d/g", Data: []byte("second")}, {Put: "/f", Data: []byte("root file")}, {Mkcol: "/d/sub"}}
	}
	kind := strings.TrimSuffix(cfg.Server, "-mem")
	p := pathsFor(kind, strings.TrimSuffix(cfg.Prefix, "/"))
	n := r.Range(3, 14)
	for i := 0; i < n; i++ {
		c := &DavCall{}
		switch kind {
		case "webdav":
			c.Client = "webdav"
			c.Fn = rt.Pick(r, []string{"Stat", "Stat", "ReadDir", "ReadDir", "Open", "Open", "Create", "RemoveAll", "Mkdir", "Copy", "Move", "FindCurrentUserPrincipal"})
			c.Path = rt.Pick(r, []string{"/d/f.txt", "/d/g", "/f", "/d", "/", "/missing", "/d/sub"})
			switch c.Fn {
			case "ReadDir":
				c.Path = rt.Pick(r, []string{"/", "/d", "/d/sub", "/missing"})
				c.Flag = r.Chance(0.5)
			case "Open":
				c.Path = rt.Pick(r, []string{"/d/f.txt", "/d/g", "/f", "/missing"})
			case "Create":
				c.Path = rt.Pick(r, []string{"/d/new", "/d/f.txt", "/nodir/x"})
				c.Data = []byte("uploaded by the client")
			case "Mkdir":
				c.Path = rt.Pick(r, []string{"/newdir", "/d/newdir", "/d"})
			case "Copy", "Move":
				c.Path = rt.Pick(r, []string{"/d/f.txt", "/f", "/missing"})
				c.Dest = rt.Pick(r, []string{"/copied", "/d/g", "/nodir/x"})
				c.Flag = r.Chance(0.4)
			}
		case "caldav":
			c.Client = "caldav"
			c.Fn = rt.Pick(r, []string{"FindCurrentUserPrincipal", "FindCalendarHomeSet", "FindCalendars", "QueryCalendar", "QueryCalendar", "MultiGetCalendar", "MultiGetCalendar", "GetCalendarObject", "GetCalendarObject", "PutCalendarObject", "Stat", "RemoveAll"})
			switch c.Fn {
			case "FindCalendarHomeSet":
				c.Path = rt.Pick(r, []string{p.principal, p.principal, p.root, "/other/"})
			case "FindCalendars":
				c.Path = rt.Pick(r, []string{p.home, p.home, p.principal})
			case "QueryCalendar":
				c.Path = rt.Pick(r, []string{p.coll, p.coll, p.home})
				c.Flag = r.Chance(0.5)
			case "MultiGetCalendar":
				c.Path = p.coll
				for _, h := range []string{p.obj, strings.Replace(p.obj, "e0", "e1", 1), p.missingObj} {
					if r.Chance(0.6) {
						c.Paths = append(c.Paths, h)
					}
				}
			case "GetCalendarObject", "Stat", "RemoveAll":
				c.Path = rt.Pick(r, []string{p.obj, p.obj, p.missingObj})
			case "PutCalendarObject":
				c.Path = rt.Pick(r, []string{p.missingObj, p.obj})
			}
			if c.Fn == "Stat" || c.Fn == "RemoveAll" {
				c.Client = "webdav"
			}
		case "carddav":
			c.Client = "carddav"
			c.Fn = rt.Pick(r, []string{"HasSupport", "FindAddressBookHomeSet", "FindAddressBooks", "QueryAddressBook", "QueryAddressBook", "MultiGetAddressBook", "MultiGetAddressBook", "GetAddressObject", "GetAddressObject", "PutAddressObject", "SyncCollection", "SyncCollection", "FindCurrentUserPrincipal"})
			switch c.Fn {
			case "FindAddressBookHomeSet":
				c.Path = rt.Pick(r, []string{p.principal, p.principal, p.root})
			case "FindAddressBooks":
				c.Path = rt.Pick(r, []string{p.home, p.home, p.principal})
			case "QueryAddressBook":
				c.Path = rt.Pick(r, []string{p.coll, p.coll, p.home})
				c.N = rt.Pick(r, []int{0, 0, 1, 5})
			case "MultiGetAddressBook":
				c.Path = p.coll
				for _, h := range []string{p.obj, strings.Replace(p.obj, "c0", "c1", 1), p.missingObj} {
					if r.Chance(0.6) {
						c.Paths = append(c.Paths, h)
					}
				}
			case "GetAddressObject":
				c.Path = rt.Pick(r, []string{p.obj, p.obj, p.missingObj})
			case "PutAddressObject":
				c.Path = rt.Pick(r, []string{p.missingObj, p.obj})
			case "SyncCollection":
				c.Path = p.coll
				c.Token = rt.Pick(r, []string{"", "http://example.org/sync/41"})
				c.N = rt.Pick(r, []int{0, 10, 1, 2, 3, 5})
			}
			if c.Fn == "FindCurrentUserPrincipal" {
				c.Client = "webdav"
			}
		}
		st := Step{DelayNS: 1000, Call: c}
		switch r.Weighted([]int{14, 34, 18, 6, 6, 14, 4, 4}) {
		case 1: // status replaced
			st.Faults = []Fault{{Seam: "resp", Kind: rt.Pick(r, statusFaultKinds), Arg: 100 + r.Intn(500), Sel: r.Intn(16)}}
			if r.Chance(0.2) {
				st.Faults[0].Note, st.Faults[0].At = "cut", r.Intn(4000)
			} else if r.Chance(0.1) {
				st.Faults[0].Note = "absurd-length"
			}
			if r.Chance(0.3) {
				st.Faults[0].Arg = rt.Pick(r, []int{100, 101, 199, 200, 201, 204, 206, 207, 226, 299, 300, 301, 304, 307, 399, 400, 401, 403, 404, 405, 409, 412, 423, 424, 499, 500, 501, 503, 507, 599})
			}
			if r.Chance(0.12) {
				// an error page that never ends; only for error statuses: how much of a
				// 2xx body a caller wants is the caller's business
				st.Faults[0].Kind = rt.Pick(r, []string{"status-endless-text", "status-endless-html", "status-endless-opaque", "status-endless-notype"})
				st.Faults[0].Arg = rt.Pick(r, []int{300, 400, 403, 404, 409, 423, 500, 502, 503, 504})
			}
		case 2: // body cut
			st.Faults = []Fault{{Seam: "resp", Kind: rt.Pick(r, []string{"cut-eof", "cut-error"}), At: r.Intn(1200)}}
			if r.Chance(0.15) {
				st.Faults[0].Note, st.Faults[0].Sel = "absurd-length", r.Intn(4)
			}
			if r.Chance(0.3) {
				st.Faults[0].At = r.Intn(64)
			}
		case 3:
			st.Faults = []Fault{{Seam: "transport", Kind: rt.Pick(r, []string{"error-before", "error-after"})}}
		case 4:
			st.Faults = []Fault{{Seam: "transport", Kind: "stall", Arg: rt.Pick(r, []int{1, 1000, 30000, 3600000})}}
		case 5: // a member of the multi-status fails
			st.Faults = []Fault{{Seam: "resp", Kind: rt.Pick(r, []string{"ms-response-status", "ms-propstat-status", "ms-propstat-status", "ms-response-status", "ms-propstat-status", "ms-no-href", "ms-two-hrefs", "ms-empty", "ms-status-garbage"}), At: r.Intn(6), Sel: r.Intn(8),
				Arg: rt.Pick(r, []int{403, 404, 404, 423, 424, 500, 507, 102, 301})}}
			if r.Chance(0.4) {
				st.Faults[0].Note = "keep-value"
			}
			if r.Chance(0.12) {
				st.Faults = []Fault{{Seam: "resp", Kind: "ms-ill-formed", Sel: r.Intn(8), At: r.Intn(12)}}
			} else if r.Chance(0.2) {
				st.Faults = []Fault{{Seam: "resp", Kind: "ms-neutral", Sel: r.Intn(6), At: r.Intn(6)}}
			} else if st.Faults[0].Kind == "ms-response-status" && r.Chance(0.35) {
				// the failing status is ADDED to the response, its propstats stay
				// (not what RFC 4918 section 14.24 allows, but what servers send)
				st.Faults[0].Note = "keep-propstat"
			}
		case 6:
			st.Faults = []Fault{{Seam: "resp", Kind: rt.Pick(r, []string{"no-content-type", "wrong-content-type"})}}
		case 7: // a backend call fails (per-href failures in a multiget, failing callbacks)
			st.Faults = []Fault{{Seam: "backend", At: r.Intn(6), Kind: rt.Pick(r, backendFaultKinds)}}
		}
		if len(st.Faults) == 1 && st.Faults[0].Seam != "backend" && r.Chance(0.1) {
			st.Faults[0].Trip = 1 // the second round trip, if there is one (redirects)
		}
		if r.Chance(0.03) {
			st.Faults = append(st.Faults, Fault{Seam: "cancel", Kind: "cancel", Arg: rt.Pick(r, []int{0, 0, 5})})
		}
		pl.Steps = append(pl.Steps, st)
	}
	return pl
}

// GenC14Exhaustive: one call, its response cut at every offset (both kinds),
// then every status 100..599 with one body kind each.
func GenC14Exhaustive(seed uint64, tier string) *Plan {
	r := rt.NewRand(seed)
	base := GenC14(seed, tier)
	pl := &Plan{Format: 1, Property: "C14", Profile: "client-every-offset-and-status", RunSeed: seed, Config: base.Config, Setup: base.Setup}
	c := base.Steps[0].Call
	switch c.Fn { // calls that change the server's state would not repeat
	case "Create", "RemoveAll", "Mkdir", "Copy", "Move", "PutCalendarObject", "PutAddressObject":
		for _, s := range base.Steps {
			switch s.Call.Fn {
			case "Create", "RemoveAll", "Mkdir", "Copy", "Move", "PutCalendarObject", "PutAddressObject":
			default:
				c = s.Call
			}
		}
	}
	if r.Chance(0.5) {
		for at := 0; at <= 1500; at++ {
			pl.Steps = append(pl.Steps, Step{DelayNS: 1000, Call: c, Faults: []Fault{{Seam: "resp", Kind: rt.Pick(r, []string{"cut-eof", "cut-error"}), At: at}}})
		}
	} else {
		for s := 100; s <= 599; s++ {
			pl.Steps = append(pl.Steps, Step{DelayNS: 1000, Call: c, Faults: []Fault{{Seam: "resp", Kind: rt.Pick(r, statusFaultKinds), Arg: s, Sel: r.Intn(16)}}})
		}
	}
	return pl
}
