//go:build go1.25

package wdsim

import (
	"context"
	"fmt"
	"net/http"
	"sort"
	"strings"
	"time"

	"github.com/emersion/go-ical"
	"github.com/emersion/go-vcard"
	"github.com/emersion/go-webdav/caldav"
	"github.com/emersion/go-webdav/carddav"
	"github.com/emersion/go-webdav/vsim/rt"
)

// The concurrent engine for the CalDAV and CardDAV handlers: one shared
// handler and one shared client per package; task i works on collection
// /u/cal/t<i>/ (or /u/contacts/t<i>/). The backend is sharded by that path
// segment so that tasks never meet in harness memory: whatever the race
// detector reports is library state.

func shardOf(path, home string) int {
	rest := strings.TrimPrefix(path, home)
	if len(rest) >= 2 && rest[0] == 't' && rest[1] >= '0' && rest[1] <= '7' {
		return int(rest[1] - '0')
	}
	return -1
}

type shardCal struct {
	principal, home string
	shards          [8]*calBackend
	tasks           *[8]*ctask
	all             []caldav.Calendar
}

func newShardCal(tasks *[8]*ctask) *shardCal {
	s := &shardCal{principal: "/u/", home: "/u/cal/", tasks: tasks}
	for i := 0; i < 8; i++ {
		b := &calBackend{principal: s.principal, home: s.home, objs: map[string]*caldav.CalendarObject{}}
		c := caldav.Calendar{Path: fmt.Sprintf("%st%d/", s.home, i), Name: fmt.Sprintf("Task %d", i), Description: "d", MaxResourceSize: 4096}
		b.cals = []caldav.Calendar{c}
		for k := 0; k < 3; k++ {
			p := fmt.Sprintf("%se%d.ics", c.Path, k)
			b.objs[p] = &caldav.CalendarObject{Path: p, ModTime: time.Date(2024, 1, 1, 0, 0, k, 0, time.UTC), ContentLength: int64(100 + k), ETag: fmt.Sprintf("t%d-%d", i, k),
				Data: newEvent(fmt.Sprintf("uid-%d-%d", i, k), []string{"Lunch", "Meeting", "Other"}[k], time.Date(2024, 1, 1+k, 10, 0, 0, 0, time.UTC))}
		}
		s.shards[i] = b
		s.all = append(s.all, c)
	}
	return s
}

// seamYield is the scheduling point of a backend call.
func seamYield(tasks *[8]*ctask, i int) {
	if t, g := gctxOfCaller(tasks); t != nil {
		t.diskCalls++
		g.yield()
	}
}

func (s *shardCal) pick(path string) (*calBackend, error) {
	i := shardOf(path, s.home)
	if i < 0 {
		return nil, nf("resource")
	}
	seamYield(s.tasks, i)
	return s.shards[i], nil
}

func (s *shardCal) CurrentUserPrincipal(ctx context.Context) (string, error) { return s.principal, nil }
func (s *shardCal) CalendarHomeSetPath(ctx context.Context) (string, error)  { return s.home, nil }
func (s *shardCal) ListCalendars(ctx context.Context) ([]caldav.Calendar, error) {
	return append([]caldav.Calendar(nil), s.all...), nil
}
func (s *shardCal) CreateCalendar(ctx context.Context, c *caldav.Calendar) error {
	b, err := s.pick(c.Path)
	if err != nil {
		return err
	}
	return b.CreateCalendar(ctx, c)
}
func (s *shardCal) GetCalendar(ctx context.Context, path string) (*caldav.Calendar, error) {
	b, err := s.pick(path)
	if err != nil {
		return nil, err
	}
	return b.GetCalendar(ctx, path)
}
func (s *shardCal) GetCalendarObject(ctx context.Context, path string, req *caldav.CalendarCompRequest) (*caldav.CalendarObject, error) {
	b, err := s.pick(path)
	if err != nil {
		return nil, err
	}
	return b.GetCalendarObject(ctx, path, req)
}
func (s *shardCal) ListCalendarObjects(ctx context.Context, path string, req *caldav.CalendarCompRequest) ([]caldav.CalendarObject, error) {
	b, err := s.pick(path)
	if err != nil {
		return nil, err
	}
	return b.ListCalendarObjects(ctx, path, req)
}
func (s *shardCal) QueryCalendarObjects(ctx context.Context, path string, q *caldav.CalendarQuery) ([]caldav.CalendarObject, error) {
	b, err := s.pick(path)
	if err != nil {
		return nil, err
	}
	return b.QueryCalendarObjects(ctx, path, q)
}
func (s *shardCal) PutCalendarObject(ctx context.Context, path string, cal *ical.Calendar, opts *caldav.PutCalendarObjectOptions) (*caldav.CalendarObject, error) {
	b, err := s.pick(path)
	if err != nil {
		return nil, err
	}
	return b.PutCalendarObject(ctx, path, cal, opts)
}
func (s *shardCal) DeleteCalendarObject(ctx context.Context, path string) error {
	b, err := s.pick(path)
	if err != nil {
		return err
	}
	return b.DeleteCalendarObject(ctx, path)
}

type shardCard struct {
	principal, home string
	shards          [8]*cardBackend
	tasks           *[8]*ctask
	all             []carddav.AddressBook
}

func newShardCard(tasks *[8]*ctask) *shardCard {
	s := &shardCard{principal: "/u/", home: "/u/contacts/", tasks: tasks}
	for i := 0; i < 8; i++ {
		b := &cardBackend{principal: s.principal, home: s.home, objs: map[string]*carddav.AddressObject{}}
		ab := carddav.AddressBook{Path: fmt.Sprintf("%st%d/", s.home, i), Name: fmt.Sprintf("Book %d", i), MaxResourceSize: 1024}
		b.books = []carddav.AddressBook{ab}
		for k := 0; k < 3; k++ {
			p := fmt.Sprintf("%sc%d.vcf", ab.Path, k)
			b.objs[p] = &carddav.AddressObject{Path: p, ModTime: time.Date(2024, 2, 1, 0, 0, k, 0, time.UTC), ContentLength: int64(50 + k), ETag: fmt.Sprintf("c%d-%d", i, k),
				Card: newCard([]string{"Ann", "Bob", "Zoë"}[k], fmt.Sprintf("p%d@example.org", k))}
		}
		s.shards[i] = b
		s.all = append(s.all, ab)
	}
	return s
}

func (s *shardCard) pick(path string) (*cardBackend, error) {
	i := shardOf(path, s.home)
	if i < 0 {
		return nil, nf("resource")
	}
	seamYield(s.tasks, i)
	return s.shards[i], nil
}

func (s *shardCard) CurrentUserPrincipal(ctx context.Context) (string, error) {
	return s.principal, nil
}
func (s *shardCard) AddressBookHomeSetPath(ctx context.Context) (string, error) { return s.home, nil }
func (s *shardCard) ListAddressBooks(ctx context.Context) ([]carddav.AddressBook, error) {
	return append([]carddav.AddressBook(nil), s.all...), nil
}
func (s *shardCard) GetAddressBook(ctx context.Context, path string) (*carddav.AddressBook, error) {
	b, err := s.pick(path)
	if err != nil {
		return nil, err
	}
	return b.GetAddressBook(ctx, path)
}
func (s *shardCard) CreateAddressBook(ctx context.Context, ab *carddav.AddressBook) error {
	b, err := s.pick(ab.Path)
	if err != nil {
		return err
	}
	return b.CreateAddressBook(ctx, ab)
}
func (s *shardCard) DeleteAddressBook(ctx context.Context, path string) error {
	b, err := s.pick(path)
	if err != nil {
		return err
	}
	return b.DeleteAddressBook(ctx, path)
}
func (s *shardCard) GetAddressObject(ctx context.Context, path string, req *carddav.AddressDataRequest) (*carddav.AddressObject, error) {
	b, err := s.pick(path)
	if err != nil {
		return nil, err
	}
	return b.GetAddressObject(ctx, path, req)
}
func (s *shardCard) ListAddressObjects(ctx context.Context, path string, req *carddav.AddressDataRequest) ([]carddav.AddressObject, error) {
	b, err := s.pick(path)
	if err != nil {
		return nil, err
	}
	return b.ListAddressObjects(ctx, path, req)
}
func (s *shardCard) QueryAddressObjects(ctx context.Context, path string, q *carddav.AddressBookQuery) ([]carddav.AddressObject, error) {
	b, err := s.pick(path)
	if err != nil {
		return nil, err
	}
	return b.QueryAddressObjects(ctx, path, q)
}
func (s *shardCard) PutAddressObject(ctx context.Context, path string, card vcard.Card, opts *carddav.PutAddressObjectOptions) (*carddav.AddressObject, error) {
	b, err := s.pick(path)
	if err != nil {
		return nil, err
	}
	return b.PutAddressObject(ctx, path, card, opts)
}
func (s *shardCard) DeleteAddressObject(ctx context.Context, path string) error {
	b, err := s.pick(path)
	if err != nil {
		return err
	}
	return b.DeleteAddressObject(ctx, path)
}

// runDavTasks is runTasks for the CalDAV/CardDAV servers.
func runDavTasks(plan *Plan, tasks []TaskPlan, log *Log) (*concResult, string) {
	curReset()
	var tarr [8]*ctask
	slots := plan.Slots
	if slots <= 0 {
		slots = 4
	}
	var cts []*ctask
	for _, tp := range tasks {
		mk := func(id int) *gctx {
			return &gctx{id: id, rng: rt.NewRand(rt.Mix(plan.SchedSeed, uint64(id), uint64(len(tasks)))), slots: slots, stall: plan.Stall}
		}
		ct := &ctask{idx: tp.ID, caller: mk(tp.ID), up: mk(8 + tp.ID)}
		tarr[tp.ID] = ct
		cts = append(cts, ct)
	}
	var h http.Handler
	var calS *shardCal
	var cardS *shardCard
	if plan.Config.Server == "carddav" {
		cardS = newShardCard(&tarr)
		h = &carddav.Handler{Backend: cardS, Prefix: plan.Config.Prefix}
	} else {
		calS = newShardCal(&tarr)
		h = &caldav.Handler{Backend: calS, Prefix: plan.Config.Prefix}
	}
	time.Sleep(time.Until(epoch.Add(time.Hour)))
	tr := &concTransport{h: h, calibrate: plan.Calibrate, redirected: plan.Config.Redirected}
	cs, err := newClientSet(&http.Client{Transport: tr}, "http://dav.test/")
	if err != nil {
		return nil, err.Error()
	}
	done := make(chan int, len(tasks))
	for i := range tasks {
		tp, ct := &tasks[i], cts[i]
		go func() {
			defer func() { done <- tp.ID }()
			runDavTask(tp, ct, cs, tr)
		}()
	}
	for range tasks {
		<-done
	}
	res := &concResult{}
	for i, ct := range cts {
		res.obs = append(res.obs, ct.obs)
		// the final state of the task's shard
		var fin []string
		id := tasks[i].ID
		if calS != nil {
			for p, o := range calS.shards[id].objs {
				fin = append(fin, p+" "+o.ETag)
			}
			for _, c := range calS.shards[id].created {
				fin = append(fin, "created "+c.Path+" "+c.Name)
			}
		} else {
			for p, o := range cardS.shards[id].objs {
				fin = append(fin, p+" "+o.ETag)
			}
			for _, c := range cardS.shards[id].created {
				fin = append(fin, "created "+c.Path+" "+c.Name)
			}
		}
		sort.Strings(fin)
		ct.obs = append(ct.obs, "final "+strings.Join(fin, "; "))
		res.obs[i] = ct.obs
		res.final = append(res.final, nil)
		res.logs = append(res.logs, ct.caller.log...)
		res.logs = append(res.logs, ct.up.log...)
		res.hops += ct.transportHops + ct.diskCalls + ct.bodyReads
	}
	sort.SliceStable(res.logs, func(i, j int) bool {
		a, b := res.logs[i], res.logs[j]
		if a.at != b.at {
			return a.at < b.at
		}
		if a.id != b.id {
			return a.id < b.id
		}
		return a.seq < b.seq
	})
	var ord strings.Builder
	last := -1
	for _, e := range res.logs {
		id := e.id % 8
		if id != last {
			fmt.Fprintf(&ord, "%d", id)
			last = id
		}
		if log != nil {
			log.Lines = append(log.Lines, fmt.Sprintf("t=+%d g%d %s", e.at, e.id, e.text))
		}
	}
	res.order = ord.String()
	return res, ""
}

func runDavTask(tp *TaskPlan, t *ctask, cs *clientSet, tr *concTransport) {
	curSet(t.idx, goid())
	ctx := context.WithValue(context.Background(), taskKey{}, t)
	g := t.caller
	for i := range tp.Steps {
		st := &tp.Steps[i]
		g.yield()
		if c := st.Call; c != nil {
			g.logf("call %d %s.%s(%q)", i, c.Client, c.Fn, c.Path)
			r := doCallWith(ctx, c, cs)
			var items []string
			for _, it := range r.Items {
				var fs []string
				for f := range it.Fields {
					fs = append(fs, f)
				}
				sort.Strings(fs)
				items = append(items, fmt.Sprintf("%s%v data=%v", it.Path, fs, it.HasData))
			}
			s := fmt.Sprintf("%d %s.%s = %v deleted=%v err=%s panic=%s", i, c.Client, c.Fn, items, r.Dele, normErr(r.Err), firstLines(r.Panic, 2))
			t.obs = append(t.obs, s)
			g.logf("obs %s", s)
			continue
		}
		req, why := buildRequest(st)
		if req == nil {
			t.obs = append(t.obs, fmt.Sprintf("%d not delivered: %s", i, why))
			continue
		}
		g.logf("call %d %s %s", i, st.Method, st.Target)
		if len(st.Body) == 0 {
			req.Body = http.NoBody
		} else {
			body := &FaultBody{Data: st.Body, Chunk: st.Chunk}
			if st.Chunk < 0 {
				body.Rng = rt.NewRand(rt.Mix(uint64(t.idx), uint64(i), 0xb0d1))
			}
			req.Body = &yieldBody{r: body, t: t, g: func() *gctx { return t.caller }}
		}
		req = req.WithContext(ctx)
		resp, pan := tr.serve(t, req)
		var s string
		if pan != "" {
			s = fmt.Sprintf("%d %s PANIC %s", i, st.Method, firstLines(pan, 3))
		} else {
			s = fmt.Sprintf("%d %s = %s", i, st.Method, t.normResponse(resp))
		}
		t.obs = append(t.obs, s)
		g.logf("obs %s", s)
	}
}

// GenC18ConcDav: N tasks on disjoint collections of one shared CalDAV or
// CardDAV handler and one shared client set.
func GenC18ConcDav(seed uint64, tier string) *Plan {
	r := rt.NewRand(seed)
	p := &Plan{Format: 1, Property: "C18", Profile: "concurrent-dav", RunSeed: seed, Config: Config{RootName: RootName}}
	p.Config.Server = rt.Pick(r, []string{"caldav", "carddav"})
	p.Config.Redirected = r.Chance(0.3)
	if r.Chance(0.4) {
		p.Config.Prefix = "/" // mounted at the root, spelled with its slash
	}
	n := 2 + r.Intn(5)
	for id := 0; id < n; id++ {
		tp := TaskPlan{ID: id}
		var dp davPaths
		if p.Config.Server == "caldav" {
			coll := fmt.Sprintf("/u/cal/t%d/", id)
			dp = davPaths{root: "/", principal: "/u/", home: "/u/cal/", coll: coll, obj: coll + "e0.ics", deeper: coll + "e0.ics/x", missingObj: coll + "nope.ics", newColl: coll}
		} else {
			coll := fmt.Sprintf("/u/contacts/t%d/", id)
			dp = davPaths{root: "/", principal: "/u/", home: "/u/contacts/", coll: coll, obj: coll + "c0.vcf", deeper: coll + "c0.vcf/x", missingObj: coll + "nope.vcf", newColl: coll}
		}
		m := r.Range(3, 10)
		for k := 0; k < m; k++ {
			if r.Chance(0.55) {
				c := &DavCall{Client: p.Config.Server}
				if p.Config.Server == "caldav" {
					c.Fn = rt.Pick(r, []string{"FindCalendarHomeSet", "FindCalendars", "QueryCalendar", "MultiGetCalendar", "GetCalendarObject", "PutCalendarObject", "RemoveAll", "Stat"})
				} else {
					c.Fn = rt.Pick(r, []string{"HasSupport", "FindAddressBookHomeSet", "FindAddressBooks", "QueryAddressBook", "MultiGetAddressBook", "GetAddressObject", "PutAddressObject", "RemoveAll", "Stat"})
				}
				switch c.Fn {
				case "FindCalendarHomeSet", "FindAddressBookHomeSet":
					c.Path = dp.principal
				case "FindCalendars", "FindAddressBooks":
					c.Path = dp.home
				case "QueryCalendar", "QueryAddressBook":
					c.Path = dp.coll
					c.Flag = r.Chance(0.5)
				case "MultiGetCalendar", "MultiGetAddressBook":
					c.Path = dp.coll
					for _, h := range []string{dp.obj, strings.Replace(strings.Replace(dp.obj, "e0", "e1", 1), "c0", "c1", 1), dp.missingObj} {
						if r.Chance(0.6) {
							c.Paths = append(c.Paths, h)
						}
					}
				case "GetCalendarObject", "GetAddressObject":
					c.Path = rt.Pick(r, []string{dp.obj, dp.missingObj})
				case "PutCalendarObject", "PutAddressObject":
					c.Path = rt.Pick(r, []string{dp.missingObj, dp.obj, dp.coll + "new.x"})
				case "RemoveAll", "Stat":
					c.Client = "webdav"
					c.Path = rt.Pick(r, []string{dp.obj, dp.missingObj, strings.Replace(strings.Replace(dp.obj, "e0", "e2", 1), "c0", "c2", 1)})
				}
				tp.Steps = append(tp.Steps, Step{Call: c})
				continue
			}
			var st *Step
			for try := 0; try < 20; try++ {
				st = davRequest(r, p.Config.Server, dp)
				// stay inside the task's own collection (and the static levels above it)
				if strings.HasPrefix(st.Target, dp.coll) || st.Target == dp.home || st.Target == dp.principal || st.Target == dp.root {
					if st.Method == "PROPFIND" && st.Target != dp.coll && !strings.HasPrefix(st.Target, dp.coll) {
						// a deep PROPFIND above the collection would list other tasks' objects
						st.Headers = [][2]string{{"Depth", "0"}, {"Content-Type", "application/xml"}}
					}
					break
				}
				st = nil
			}
			if st == nil {
				st = &Step{Method: "OPTIONS", Target: dp.coll, Kind: "options"}
			}
			st.Chunk = rt.Pick(r, []int{0, 1, 7, -16, 512})
			st.DelayNS = 0
			tp.Steps = append(tp.Steps, *st)
		}
		p.Tasks = append(p.Tasks, tp)
	}
	p.SchedSeed = r.Uint64()
	p.Slots = rt.Pick(r, []int{1, 2, 4, 16, 64})
	return p
}
