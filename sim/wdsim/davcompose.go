//go:build go1.25

package wdsim

import (
	"fmt"
	"strings"

	"github.com/emersion/go-webdav/vsim/rt"
)

// Composed malformed REPORT documents. The hand-written list (malformedDocs)
// holds one document per rule; here the same rules - the ones the property
// names: mutually exclusive filter or selection elements, invalid dates,
// enumeration values and limits - are planted at every place of a REPORT where
// RFC 4791 / RFC 6352 define the syntax and the servers' REPORT decoding (the
// property's anchors) reads it, and the rest of the document is varied around
// them: how many hrefs a multiget names (none, one, several), which other
// properties are asked for, how deep the poisoned element sits, whether valid
// siblings come before or after it. A rule that is only enforced for some
// shapes of the surrounding document is what this finds.

var badDates = []string{"2024-01-01", "20240230T000000Z", "20230229T120000Z", "20240101T246000Z", "20240101", "20240101T000000", "yesterday", "20240101T000000+0100", "2024010T000000Z", "20241301T000000Z", "00000000T000000Z"}

// Enumerations in another case are as invalid as made-up words: the RFCs'
// DTDs declare them as enumerated attribute types, which are case-sensitive.
// (Not used: empty values and values padded with blanks - a DTD-aware reader
// normalises the latter away, and an empty value can be read as "not given".)
func badEnum(r *rt.Rand, legal []string, madeUp []string) string {
	switch r.Intn(3) {
	case 0:
		return rt.Pick(r, madeUp)
	case 1:
		return strings.ToUpper(rt.Pick(r, legal))
	}
	l := rt.Pick(r, legal)
	return strings.ToUpper(l[:1]) + l[1:]
}

func composeCalDAV(r *rt.Rand, hrefPool []string) (name, body string) {
	hdr := xmlHdr
	if r.Chance(0.2) {
		hdr = ""
	}
	otherProps := rt.Pick(r, []string{"", "<D:getetag/>", "<D:getetag/><D:getcontenttype/>", "<D:displayname/>"})
	before := r.Chance(0.5)
	wrapProps := func(cd string) string {
		if before {
			return "<D:prop>" + otherProps + cd + "</D:prop>"
		}
		return "<D:prop>" + cd + otherProps + "</D:prop>"
	}
	hrefs := func() (string, int) {
		n := r.Weighted([]int{4, 3, 2, 1}) // none, one, ...
		var b strings.Builder
		for i := 0; i < n; i++ {
			b.WriteString("<D:href>" + rt.Pick(r, hrefPool) + "</D:href>")
		}
		return b.String(), n
	}
	if r.Chance(0.55) {
		// calendar-multiget: the poison is in calendar-data
		var cd, what string
		switch r.Intn(4) {
		case 0:
			what = "allprop+prop"
			inner := `<C:allprop/><C:prop name="VERSION"/>`
			if r.Chance(0.5) {
				inner = `<C:prop name="VERSION"/><C:allprop/>`
			}
			cd = `<C:comp name="VCALENDAR">` + inner + `</C:comp>`
			if r.Chance(0.5) { // one level down
				what += "@nested"
				cd = `<C:comp name="VCALENDAR"><C:prop name="VERSION"/><C:comp name="VEVENT">` + inner + `</C:comp></C:comp>`
			}
		case 1:
			what = "allcomp+comp"
			inner := `<C:allcomp/><C:comp name="VALARM"/>`
			if r.Chance(0.5) {
				inner = `<C:comp name="VALARM"/><C:allcomp/>`
			}
			cd = `<C:comp name="VCALENDAR">` + strings.ReplaceAll(inner, "VALARM", "VEVENT") + `</C:comp>`
			if r.Chance(0.5) {
				what += "@nested"
				cd = `<C:comp name="VCALENDAR"><C:comp name="VEVENT">` + inner + `</C:comp></C:comp>`
			}
		default:
			what = "expand-bad-date"
			s, e := "20240101T000000Z", "20240201T000000Z"
			if r.Chance(0.5) {
				s = rt.Pick(r, badDates)
			} else {
				e = rt.Pick(r, badDates)
			}
			cd = fmt.Sprintf(`<C:expand start=%q end=%q/>`, s, e)
			if r.Chance(0.4) {
				cd = `<C:comp name="VCALENDAR"><C:allprop/><C:allcomp/></C:comp>` + cd
			}
		}
		h, n := hrefs()
		parts := []string{wrapProps("<C:calendar-data>" + cd + "</C:calendar-data>"), h}
		if r.Chance(0.3) {
			parts[0], parts[1] = parts[1], parts[0]
		}
		return fmt.Sprintf("composed:multiget:%s:hrefs=%d", what, n),
			hdr + `<C:calendar-multiget xmlns:D="DAV:" xmlns:C="` + nsCal + `">` + strings.Join(parts, "") + `</C:calendar-multiget>`
	}
	// calendar-query: the poison is in the filter
	var f, what string
	depth := r.Intn(2) // poison in the VEVENT comp-filter or one below (VALARM)
	open, close := `<C:comp-filter name="VCALENDAR"><C:comp-filter name="VEVENT">`, `</C:comp-filter></C:comp-filter>`
	if depth == 1 {
		open, close = open+`<C:comp-filter name="VALARM">`, `</C:comp-filter>`+close
	}
	sibling := ""
	if r.Chance(0.4) {
		sibling = `<C:prop-filter name="UID"><C:text-match>e</C:text-match></C:prop-filter>`
	}
	switch r.Intn(6) {
	case 0:
		what = "time-range-bad-date"
		attr := rt.Pick(r, []string{"start", "end"})
		f = fmt.Sprintf(`<C:time-range %s=%q/>`, attr, rt.Pick(r, badDates))
		if r.Chance(0.5) {
			other := "end"
			if attr == "end" {
				other = "start"
			}
			f = fmt.Sprintf(`<C:time-range %s=%q %s="20240601T000000Z"/>`, attr, rt.Pick(r, badDates), other)
		}
	case 1:
		what = "prop-filter-time-range-bad-date"
		f = fmt.Sprintf(`<C:prop-filter name="DTSTART"><C:time-range start=%q/></C:prop-filter>`, rt.Pick(r, badDates))
	case 2:
		what = "negate-condition"
		f = fmt.Sprintf(`<C:prop-filter name="SUMMARY"><C:text-match negate-condition=%q>x</C:text-match></C:prop-filter>`, badEnum(r, []string{"yes", "no"}, []string{"maybe", "true", "1"}))
	case 3:
		what = "param-filter-negate-condition"
		f = fmt.Sprintf(`<C:prop-filter name="ATTENDEE"><C:param-filter name="PARTSTAT"><C:text-match negate-condition=%q>x</C:text-match></C:param-filter></C:prop-filter>`, badEnum(r, []string{"yes", "no"}, []string{"maybe", "false", "0"}))
	case 4:
		what = "is-not-defined+more"
		f = `<C:is-not-defined/>` + rt.Pick(r, []string{`<C:time-range start="20240101T000000Z"/>`, `<C:prop-filter name="UID"/>`, `<C:comp-filter name="VALARM"/>`})
		if r.Chance(0.5) {
			f = rt.Pick(r, []string{`<C:prop-filter name="UID"/>`, `<C:comp-filter name="VALARM"/>`}) + `<C:is-not-defined/>`
		}
		sibling = ""
	default:
		what = "prop-filter-is-not-defined+more"
		f = `<C:prop-filter name="SUMMARY"><C:is-not-defined/>` + rt.Pick(r, []string{`<C:text-match>x</C:text-match>`, `<C:time-range start="20240101T000000Z"/>`, `<C:param-filter name="X"/>`}) + `</C:prop-filter>`
	}
	if r.Chance(0.5) {
		f = sibling + f
	} else {
		f = f + sibling
	}
	props := rt.Pick(r, []string{"<D:prop><D:getetag/></D:prop>", "<D:prop><D:getetag/><C:calendar-data/></D:prop>", "<D:allprop/>", "<D:propname/>", ""})
	return fmt.Sprintf("composed:query:%s:depth=%d", what, depth),
		hdr + `<C:calendar-query xmlns:D="DAV:" xmlns:C="` + nsCal + `">` + props + `<C:filter>` + open + f + close + `</C:filter></C:calendar-query>`
}

func composeCardDAV(r *rt.Rand, hrefPool []string) (name, body string) {
	hdr := xmlHdr
	if r.Chance(0.2) {
		hdr = ""
	}
	otherProps := rt.Pick(r, []string{"", "<D:getetag/>", "<D:getetag/><D:getcontenttype/>"})
	if r.Chance(0.3) {
		// addressbook-multiget: contradictory selection in address-data
		ad := `<A:allprop/><A:prop name="FN"/>`
		if r.Chance(0.5) {
			ad = `<A:prop name="FN"/><A:prop name="EMAIL"/><A:allprop/>`
		}
		n := r.Weighted([]int{4, 3, 2})
		var h strings.Builder
		for i := 0; i < n; i++ {
			h.WriteString("<D:href>" + rt.Pick(r, hrefPool) + "</D:href>")
		}
		return fmt.Sprintf("composed:multiget:allprop+prop:hrefs=%d", n),
			hdr + `<A:addressbook-multiget xmlns:D="DAV:" xmlns:A="` + nsCard + `"><D:prop>` + otherProps + `<A:address-data>` + ad + `</A:address-data></D:prop>` + h.String() + `</A:addressbook-multiget>`
	}
	var f, what, filterAttr, limit string
	good := `<A:prop-filter name="FN"><A:text-match match-type="contains">a</A:text-match></A:prop-filter>`
	switch r.Intn(8) {
	case 0:
		what = "filter-test"
		filterAttr = fmt.Sprintf(` test=%q`, badEnum(r, []string{"anyof", "allof"}, []string{"noneof", "any", "or"}))
		f = good
	case 1:
		what = "prop-filter-test"
		f = fmt.Sprintf(`<A:prop-filter name="EMAIL" test=%q><A:text-match>x</A:text-match></A:prop-filter>`, badEnum(r, []string{"anyof", "allof"}, []string{"noneof", "and"}))
	case 2:
		what = "match-type"
		f = fmt.Sprintf(`<A:prop-filter name="%s"><A:text-match match-type=%q>a</A:text-match></A:prop-filter>`, rt.Pick(r, []string{"FN", "EMAIL", "NICKNAME"}), badEnum(r, []string{"equals", "contains", "starts-with", "ends-with"}, []string{"sounds-like", "regex", "starts_with"}))
	case 3:
		what = "param-filter-match-type"
		f = fmt.Sprintf(`<A:prop-filter name="EMAIL"><A:param-filter name="TYPE"><A:text-match match-type=%q>home</A:text-match></A:param-filter></A:prop-filter>`, badEnum(r, []string{"equals", "contains", "starts-with", "ends-with"}, []string{"like", "glob"}))
	case 4:
		what = "negate-condition"
		f = fmt.Sprintf(`<A:prop-filter name="FN"><A:text-match negate-condition=%q>a</A:text-match></A:prop-filter>`, badEnum(r, []string{"yes", "no"}, []string{"perhaps", "true", "0"}))
	case 5:
		what = "is-not-defined+more"
		f = `<A:prop-filter name="EMAIL"><A:is-not-defined/>` + rt.Pick(r, []string{`<A:text-match>x</A:text-match>`, `<A:param-filter name="TYPE"/>`}) + `</A:prop-filter>`
		if r.Chance(0.4) {
			f = `<A:prop-filter name="EMAIL"><A:param-filter name="TYPE"><A:text-match>x</A:text-match><A:is-not-defined/></A:param-filter></A:prop-filter>`
			what = "param-filter-is-not-defined+more"
		}
	case 6:
		what = "limit"
		f = good
		limit = `<A:limit><A:nresults>` + rt.Pick(r, []string{"-1", "many", "1.5", "0x10", "1e3", "99999999999999999999999999"}) + `</A:nresults></A:limit>`
	default:
		what = "address-data-allprop+prop"
		otherProps += `<A:address-data><A:allprop/><A:prop name="FN"/></A:address-data>`
		f = good
	}
	if limit == "" && r.Chance(0.4) {
		// a VALID limit next to the poison (none, one, as many as can be said)
		limit = `<A:limit><A:nresults>` + rt.Pick(r, []string{"0", "1", "5", "9223372036854775807", "9223372036854775808", "18446744073709551615"}) + `</A:nresults></A:limit>`
		what += "+limit"
	}
	if r.Chance(0.4) && what != "filter-test" {
		// a valid neighbour before or after the poisoned prop-filter
		if r.Chance(0.5) {
			f = good + f
		} else {
			f = f + good
		}
	}
	return "composed:query:" + what,
		hdr + `<A:addressbook-query xmlns:D="DAV:" xmlns:A="` + nsCard + `"><D:prop>` + otherProps + `</D:prop><A:filter` + filterAttr + `>` + f + `</A:filter>` + limit + `</A:addressbook-query>`
}
