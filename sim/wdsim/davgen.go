//go:build go1.25

package wdsim

import (
	"fmt"
	"strings"

	"github.com/emersion/go-webdav/vsim/rt"
)

const (
	nsCal  = "urn:ietf:params:xml:ns:caldav"
	nsCard = "urn:ietf:params:xml:ns:carddav"
)

const xmlHdr = `<?xml version="1.0" encoding="utf-8"?>`

// davPaths are the five hierarchy levels (and one deeper) of a CalDAV or
// CardDAV server under a prefix.
type davPaths struct {
	root, principal, home, coll, obj, deeper, missingObj, newColl string
}

func pathsFor(server, prefix string) davPaths {
	if server == "carddav" {
		return davPaths{root: prefix + "/", principal: prefix + "/u/", home: prefix + "/u/contacts/", coll: prefix + "/u/contacts/default/",
			obj: prefix + "/u/contacts/default/c0.vcf", deeper: prefix + "/u/contacts/default/c0.vcf/x", missingObj: prefix + "/u/contacts/default/nope.vcf", newColl: prefix + "/u/contacts/new/"}
	}
	return davPaths{root: prefix + "/", principal: prefix + "/u/", home: prefix + "/u/cal/", coll: prefix + "/u/cal/work/",
		obj: prefix + "/u/cal/work/e0.ics", deeper: prefix + "/u/cal/work/e0.ics/x", missingObj: prefix + "/u/cal/work/nope.ics", newColl: prefix + "/u/cal/new/"}
}

func (p davPaths) any(r *rt.Rand) string {
	if r.Chance(0.12) {
		// paths no client of a calendar server would send, but the network may
		return rt.Pick(r, []string{p.home + "../../x", "/" + p.coll, strings.ReplaceAll(p.coll, "/", "//"), p.coll + "%00", p.obj + "/", p.coll + "../", p.root + "..", "/%2e%2e/", p.coll + strings.Repeat("a", 300), p.coll + "a/b/c/d/e/f", "*", p.principal + "?x=1", p.coll + "%zz"[:0] + "%C3%A9.ics", p.home + ".", "/\\"})
	}
	return rt.Pick(r, []string{p.root, p.principal, p.home, p.coll, p.obj, p.deeper, p.missingObj, strings.TrimSuffix(p.coll, "/"), strings.TrimSuffix(p.home, "/"), "/.well-known/caldav", "/.well-known/carddav", "/"})
}

func propfindDoc(r *rt.Rand, names []string) string {
	switch r.Intn(4) {
	case 0:
		return xmlHdr + `<D:propfind xmlns:D="DAV:"><D:allprop/></D:propfind>`
	case 1:
		return xmlHdr + `<D:propfind xmlns:D="DAV:"><D:propname/></D:propfind>`
	}
	var b strings.Builder
	b.WriteString(xmlHdr + `<D:propfind xmlns:D="DAV:" xmlns:C="` + nsCal + `" xmlns:A="` + nsCard + `"><D:prop>`)
	n := 0
	for _, nm := range names {
		if r.Chance(0.5) {
			b.WriteString("<" + nm + "/>")
			n++
		}
	}
	if n == 0 {
		b.WriteString("<D:resourcetype/>")
	}
	b.WriteString(`</D:prop></D:propfind>`)
	return b.String()
}

var calPropNames = []string{"D:resourcetype", "D:displayname", "D:current-user-principal", "C:calendar-home-set", "C:calendar-description", "C:supported-calendar-component-set", "C:supported-calendar-data", "C:max-resource-size", "D:getetag", "D:getlastmodified", "D:getcontentlength", "D:getcontenttype", "C:calendar-data", "D:unknown-prop"}
var cardPropNames = []string{"D:resourcetype", "D:displayname", "D:current-user-principal", "A:addressbook-home-set", "A:addressbook-description", "A:supported-address-data", "A:max-resource-size", "D:getetag", "D:getlastmodified", "D:getcontentlength", "D:getcontenttype", "A:address-data", "D:unknown-prop"}
var filePropNames = []string{"D:resourcetype", "D:getcontentlength", "D:getlastmodified", "D:getcontenttype", "D:getetag", "D:displayname"}

func proppatchDoc() string {
	return xmlHdr + `<D:propertyupdate xmlns:D="DAV:"><D:set><D:prop><D:displayname>New name</D:displayname></D:prop></D:set><D:remove><D:prop><D:getcontentlanguage/></D:prop></D:remove></D:propertyupdate>`
}

func mkcolDoc(server string) string {
	if server == "carddav" {
		return xmlHdr + `<D:mkcol xmlns:D="DAV:" xmlns:A="` + nsCard + `"><D:set><D:prop><D:resourcetype><D:collection/><A:addressbook/></D:resourcetype><D:displayname>New book</D:displayname><A:addressbook-description>described</A:addressbook-description></D:prop></D:set></D:mkcol>`
	}
	return xmlHdr + `<D:mkcol xmlns:D="DAV:" xmlns:C="` + nsCal + `"><D:set><D:prop><D:resourcetype><D:collection/><C:calendar/></D:resourcetype><D:displayname>New calendar</D:displayname></D:prop></D:set></D:mkcol>`
}

func calQueryDoc(r *rt.Rand) string {
	var f strings.Builder
	f.WriteString(`<C:comp-filter name="VCALENDAR"><C:comp-filter name="VEVENT">`)
	if r.Chance(0.5) {
		f.WriteString(`<C:time-range start="20240101T000000Z" end="20240201T000000Z"/>`)
	}
	if r.Chance(0.5) {
		f.WriteString(`<C:prop-filter name="SUMMARY"><C:text-match negate-condition="` + rt.Pick(r, []string{"no", "yes"}) + `">Lunch</C:text-match></C:prop-filter>`)
	}
	if r.Chance(0.3) {
		f.WriteString(`<C:prop-filter name="ATTENDEE"><C:param-filter name="PARTSTAT"><C:text-match>NEEDS-ACTION</C:text-match></C:param-filter></C:prop-filter>`)
	}
	if r.Chance(0.2) {
		f.WriteString(`<C:prop-filter name="LOCATION"><C:is-not-defined/></C:prop-filter>`)
	}
	f.WriteString(`</C:comp-filter></C:comp-filter>`)
	prop := `<D:prop><D:getetag/><C:calendar-data/></D:prop>`
	if r.Chance(0.3) {
		prop = `<D:prop><D:getetag/><C:calendar-data><C:comp name="VCALENDAR"><C:prop name="VERSION"/><C:comp name="VEVENT"><C:prop name="SUMMARY"/><C:prop name="UID"/></C:comp></C:comp></C:calendar-data></D:prop>`
	}
	return xmlHdr + `<C:calendar-query xmlns:D="DAV:" xmlns:C="` + nsCal + `">` + prop + `<C:filter>` + f.String() + `</C:filter></C:calendar-query>`
}

func calMultigetDoc(r *rt.Rand, p davPaths) string {
	hrefs := []string{p.obj, strings.Replace(p.obj, "e0", "e1", 1), p.missingObj}
	var b strings.Builder
	b.WriteString(xmlHdr + `<C:calendar-multiget xmlns:D="DAV:" xmlns:C="` + nsCal + `"><D:prop><D:getetag/><C:calendar-data/></D:prop>`)
	for _, h := range hrefs {
		if r.Chance(0.7) {
			b.WriteString("<D:href>" + h + "</D:href>")
		}
	}
	b.WriteString(`</C:calendar-multiget>`)
	return b.String()
}

func cardQueryDoc(r *rt.Rand) string {
	var f strings.Builder
	f.WriteString(`<A:filter test="` + rt.Pick(r, []string{"anyof", "allof"}) + `">`)
	f.WriteString(`<A:prop-filter name="EMAIL" test="anyof"><A:text-match match-type="` + rt.Pick(r, []string{"equals", "contains", "starts-with", "ends-with"}) + `" negate-condition="` + rt.Pick(r, []string{"no", "yes"}) + `">example.org</A:text-match></A:prop-filter>`)
	if r.Chance(0.3) {
		f.WriteString(`<A:prop-filter name="NICKNAME"><A:is-not-defined/></A:prop-filter>`)
	}
	if r.Chance(0.3) {
		f.WriteString(`<A:prop-filter name="TEL"><A:param-filter name="TYPE"><A:text-match>home</A:text-match></A:param-filter></A:prop-filter>`)
	}
	f.WriteString(`</A:filter>`)
	lim := ""
	if r.Chance(0.4) {
		lim = fmt.Sprintf(`<A:limit><A:nresults>%s</A:nresults></A:limit>`, rt.Pick(r, []string{"1", "2", "3", "1", "2", "2147483647", "4294967296", "1099511627776", "4611686018427387904", "9223372036854775807", "18446744073709551615"}))
	}
	prop := `<D:prop><D:getetag/><A:address-data/></D:prop>`
	if r.Chance(0.3) {
		prop = `<D:prop><D:getetag/><A:address-data><A:prop name="FN"/><A:prop name="EMAIL"/></A:address-data></D:prop>`
	}
	return xmlHdr + `<A:addressbook-query xmlns:D="DAV:" xmlns:A="` + nsCard + `">` + prop + f.String() + lim + `</A:addressbook-query>`
}

func cardMultigetDoc(r *rt.Rand, p davPaths) string {
	hrefs := []string{p.obj, strings.Replace(p.obj, "c0", "c1", 1), p.missingObj}
	var b strings.Builder
	b.WriteString(xmlHdr + `<A:addressbook-multiget xmlns:D="DAV:" xmlns:A="` + nsCard + `"><D:prop><D:getetag/><A:address-data/></D:prop>`)
	for _, h := range hrefs {
		if r.Chance(0.7) {
			b.WriteString("<D:href>" + h + "</D:href>")
		}
	}
	b.WriteString(`</A:addressbook-multiget>`)
	return b.String()
}

const icalDoc = "BEGIN:VCALENDAR\r\nVERSION:2.0\r\nPRODID:-//vsim//EN\r\nBEGIN:VEVENT\r\nUID:put-1@example.org\r\nDTSTAMP:20240101T100000Z\r\nDTSTART:20240102T100000Z\r\nDTEND:20240102T110000Z\r\nSUMMARY:Uploaded; with\\, escapes\r\nEND:VEVENT\r\nEND:VCALENDAR"

// (No vCard property here has parameters of two different names: go-vcard
// writes parameters in Go-map order, so such a card comes back in one of
// several byte sequences, and two observations of it compare unequal.)
// Well-formed objects of other shapes than the two above: what a client may
// legally store (a vCard needs no UID, EMAIL or N; a calendar object may be a
// to-do, an all-day or recurring event, or carry a VTIMEZONE next to its event).
var validVcardDocs = []string{
	vcardDoc,
	"BEGIN:VCARD\r\nVERSION:3.0\r\nFN:No Uid\r\nN:Uid;No;;;\r\nEND:VCARD",
	"BEGIN:VCARD\r\nVERSION:4.0\r\nFN:Four Oh\r\nUID:urn:uid:put-4\r\nTEL;TYPE=\"voice,home\":tel:+1-555-555-5555\r\nEND:VCARD",
	"BEGIN:VCARD\r\nVERSION:3.0\r\nFN:Put Person\r\nUID:urn:uid:Ann\r\nNOTE:same UID as a stored card\r\nEND:VCARD",
	"BEGIN:VCARD\r\nVERSION:3.0\r\nFN:Only a name\r\nEND:VCARD",
}

var validIcalDocs = []string{
	icalDoc,
	"BEGIN:VCALENDAR\r\nVERSION:2.0\r\nPRODID:-//vsim//EN\r\nBEGIN:VTODO\r\nUID:put-todo@example.org\r\nDTSTAMP:20240101T100000Z\r\nSUMMARY:A to-do\r\nEND:VTODO\r\nEND:VCALENDAR",
	"BEGIN:VCALENDAR\r\nVERSION:2.0\r\nPRODID:-//vsim//EN\r\nBEGIN:VEVENT\r\nUID:put-allday@example.org\r\nDTSTAMP:20240101T100000Z\r\nDTSTART;VALUE=DATE:20240102\r\nRRULE:FREQ=WEEKLY;COUNT=3\r\nEND:VEVENT\r\nEND:VCALENDAR",
	"BEGIN:VCALENDAR\r\nVERSION:2.0\r\nPRODID:-//vsim//EN\r\nBEGIN:VTIMEZONE\r\nTZID:Europe/Paris\r\nBEGIN:STANDARD\r\nDTSTART:19701025T030000\r\nTZOFFSETFROM:+0200\r\nTZOFFSETTO:+0100\r\nEND:STANDARD\r\nEND:VTIMEZONE\r\nBEGIN:VEVENT\r\nUID:uid-0-0\r\nDTSTAMP:20240101T100000Z\r\nDTSTART;TZID=Europe/Paris:20240102T100000\r\nEND:VEVENT\r\nEND:VCALENDAR",
}

const vcardDoc = "BEGIN:VCARD\r\nVERSION:3.0\r\nFN:Put Person\r\nN:Person;Put;;;\r\nEMAIL;TYPE=home:put@example.org\r\nUID:urn:uid:put-1\r\nEND:VCARD"

// malformedDocs are hand-written requests that are malformed by the rules the
// property names (mutually exclusive elements, invalid enumeration values,
// dates and limits, wrong roots, unparseable calendar/card bodies).
type malformedDoc struct {
	Name, Server, Method, Level, Body, CType string
}

var malformedDocs = []malformedDoc{
	{"comp-filter-is-not-defined-with-children", "caldav", "REPORT", "coll", xmlHdr + `<C:calendar-query xmlns:D="DAV:" xmlns:C="` + nsCal + `"><D:prop><D:getetag/></D:prop><C:filter><C:comp-filter name="VCALENDAR"><C:comp-filter name="VEVENT"><C:is-not-defined/><C:time-range start="20240101T000000Z"/></C:comp-filter></C:comp-filter></C:filter></C:calendar-query>`, "application/xml"},
	{"prop-filter-is-not-defined-with-text-match", "caldav", "REPORT", "coll", xmlHdr + `<C:calendar-query xmlns:D="DAV:" xmlns:C="` + nsCal + `"><D:prop><D:getetag/></D:prop><C:filter><C:comp-filter name="VCALENDAR"><C:comp-filter name="VEVENT"><C:prop-filter name="SUMMARY"><C:is-not-defined/><C:text-match>x</C:text-match></C:prop-filter></C:comp-filter></C:comp-filter></C:filter></C:calendar-query>`, "application/xml"},
	{"param-filter-is-not-defined-with-text-match", "caldav", "REPORT", "coll", xmlHdr + `<C:calendar-query xmlns:D="DAV:" xmlns:C="` + nsCal + `"><D:prop><D:getetag/></D:prop><C:filter><C:comp-filter name="VCALENDAR"><C:comp-filter name="VEVENT"><C:prop-filter name="ATTENDEE"><C:param-filter name="PARTSTAT"><C:is-not-defined/><C:text-match>x</C:text-match></C:param-filter></C:prop-filter></C:comp-filter></C:comp-filter></C:filter></C:calendar-query>`, "application/xml"},
	{"invalid-negate-condition", "caldav", "REPORT", "coll", xmlHdr + `<C:calendar-query xmlns:D="DAV:" xmlns:C="` + nsCal + `"><D:prop><D:getetag/></D:prop><C:filter><C:comp-filter name="VCALENDAR"><C:comp-filter name="VEVENT"><C:prop-filter name="SUMMARY"><C:text-match negate-condition="maybe">x</C:text-match></C:prop-filter></C:comp-filter></C:comp-filter></C:filter></C:calendar-query>`, "application/xml"},
	{"invalid-time-range-date", "caldav", "REPORT", "coll", xmlHdr + `<C:calendar-query xmlns:D="DAV:" xmlns:C="` + nsCal + `"><D:prop><D:getetag/></D:prop><C:filter><C:comp-filter name="VCALENDAR"><C:comp-filter name="VEVENT"><C:time-range start="2024-01-01"/></C:comp-filter></C:comp-filter></C:filter></C:calendar-query>`, "application/xml"},
	{"impossible-date-feb-30", "caldav", "REPORT", "coll", xmlHdr + `<C:calendar-query xmlns:D="DAV:" xmlns:C="` + nsCal + `"><D:prop><D:getetag/></D:prop><C:filter><C:comp-filter name="VCALENDAR"><C:comp-filter name="VEVENT"><C:time-range start="20240230T000000Z" end="20240301T000000Z"/></C:comp-filter></C:comp-filter></C:filter></C:calendar-query>`, "application/xml"},
	{"impossible-date-feb-29-non-leap", "caldav", "REPORT", "coll", xmlHdr + `<C:calendar-query xmlns:D="DAV:" xmlns:C="` + nsCal + `"><D:prop><D:getetag/></D:prop><C:filter><C:comp-filter name="VCALENDAR"><C:comp-filter name="VEVENT"><C:time-range start="20230229T120000Z"/></C:comp-filter></C:comp-filter></C:filter></C:calendar-query>`, "application/xml"},
	{"impossible-date-apr-31", "caldav", "REPORT", "coll", xmlHdr + `<C:calendar-query xmlns:D="DAV:" xmlns:C="` + nsCal + `"><D:prop><D:getetag/></D:prop><C:filter><C:comp-filter name="VCALENDAR"><C:comp-filter name="VEVENT"><C:prop-filter name="DTSTART"><C:time-range end="20240431T000000Z"/></C:prop-filter></C:comp-filter></C:comp-filter></C:filter></C:calendar-query>`, "application/xml"},
	{"impossible-time-24h", "caldav", "REPORT", "coll", xmlHdr + `<C:calendar-query xmlns:D="DAV:" xmlns:C="` + nsCal + `"><D:prop><D:getetag/></D:prop><C:filter><C:comp-filter name="VCALENDAR"><C:comp-filter name="VEVENT"><C:time-range start="20240101T246000Z"/></C:comp-filter></C:comp-filter></C:filter></C:calendar-query>`, "application/xml"},
	{"calendar-data-allprop-and-prop", "caldav", "REPORT", "coll", xmlHdr + `<C:calendar-multiget xmlns:D="DAV:" xmlns:C="` + nsCal + `"><D:prop><C:calendar-data><C:comp name="VCALENDAR"><C:allprop/><C:prop name="VERSION"/></C:comp></C:calendar-data></D:prop><D:href>/u/cal/work/e0.ics</D:href></C:calendar-multiget>`, "application/xml"},
	{"calendar-data-allcomp-and-comp", "caldav", "REPORT", "coll", xmlHdr + `<C:calendar-multiget xmlns:D="DAV:" xmlns:C="` + nsCal + `"><D:prop><C:calendar-data><C:comp name="VCALENDAR"><C:allcomp/><C:comp name="VEVENT"/></C:comp></C:calendar-data></D:prop><D:href>/u/cal/work/e0.ics</D:href></C:calendar-multiget>`, "application/xml"},
	{"report-wrong-root", "caldav", "REPORT", "coll", xmlHdr + `<C:free-busy-query xmlns:C="` + nsCal + `"/>`, "application/xml"},
	{"report-empty-body", "caldav", "REPORT", "coll", "", "application/xml"},
	{"report-not-xml-type", "caldav", "REPORT", "coll", `{"json": true}`, "application/json"},
	{"put-not-ical", "caldav", "PUT", "obj", "this is not a calendar", "text/calendar"},
	{"put-ical-no-end", "caldav", "PUT", "obj", "BEGIN:VCALENDAR\r\nVERSION:2.0\r\nBEGIN:VEVENT\r\nUID:x\r\n", "text/calendar"},
	{"put-ical-param-without-value-part", "caldav", "PUT", "obj", "BEGIN:VCALENDAR\r\nVERSION:2.0\r\nBEGIN:VEVENT\r\nUID:x\r\nDTSTART;VALUE=DATE\r\nEND:VEVENT\r\nEND:VCALENDAR\r\n", "text/calendar"},
	{"put-ical-junk-after-quoted-param", "caldav", "PUT", "obj", "BEGIN:VCALENDAR\r\nVERSION:2.0\r\nBEGIN:VEVENT\r\nUID:x\r\nATTENDEE;CN=\"Ann\"x:mailto:a@example.org\r\nEND:VEVENT\r\nEND:VCALENDAR\r\n", "text/calendar"},
	{"put-ical-end-without-begin", "caldav", "PUT", "obj", "END:VCALENDAR\r\n", "text/calendar"},
	{"put-ical-wrong-end", "caldav", "PUT", "obj", "BEGIN:VCALENDAR\r\nVERSION:2.0\r\nBEGIN:VEVENT\r\nUID:x\r\nEND:VTODO\r\nEND:VCALENDAR\r\n", "text/calendar"},
	{"put-wrong-content-type", "caldav", "PUT", "obj", icalDoc, "text/plain"},
	{"put-malformed-content-type", "caldav", "PUT", "obj", icalDoc, "text/calendar; charset"},
	{"mkcol-wrong-resourcetype", "caldav", "MKCOL", "newcoll", xmlHdr + `<D:mkcol xmlns:D="DAV:"><D:set><D:prop><D:resourcetype><D:collection/></D:resourcetype></D:prop></D:set></D:mkcol>`, "application/xml"},
	{"mkcol-unparseable", "caldav", "MKCOL", "newcoll", xmlHdr + `<D:mkcol xmlns:D="DAV:"><D:set>`, "application/xml"},
	{"propfind-none-of-three", "caldav", "PROPFIND", "coll", xmlHdr + `<D:propfind xmlns:D="DAV:"/>`, "application/xml"},
	{"propfind-wrong-root", "caldav", "PROPFIND", "coll", xmlHdr + `<D:propertyupdate xmlns:D="DAV:"/>`, "application/xml"},
	{"proppatch-unparseable", "caldav", "PROPPATCH", "coll", xmlHdr + `<D:propertyupdate xmlns:D="DAV:"><D:set><D:prop>`, "application/xml"},

	{"prop-filter-is-not-defined-with-text-match", "carddav", "REPORT", "coll", xmlHdr + `<A:addressbook-query xmlns:D="DAV:" xmlns:A="` + nsCard + `"><D:prop><D:getetag/></D:prop><A:filter><A:prop-filter name="EMAIL"><A:is-not-defined/><A:text-match>x</A:text-match></A:prop-filter></A:filter></A:addressbook-query>`, "application/xml"},
	{"param-filter-is-not-defined-with-text-match", "carddav", "REPORT", "coll", xmlHdr + `<A:addressbook-query xmlns:D="DAV:" xmlns:A="` + nsCard + `"><D:prop><D:getetag/></D:prop><A:filter><A:prop-filter name="TEL"><A:param-filter name="TYPE"><A:is-not-defined/><A:text-match>x</A:text-match></A:param-filter></A:prop-filter></A:filter></A:addressbook-query>`, "application/xml"},
	{"invalid-filter-test", "carddav", "REPORT", "coll", xmlHdr + `<A:addressbook-query xmlns:D="DAV:" xmlns:A="` + nsCard + `"><D:prop><D:getetag/></D:prop><A:filter test="noneof"><A:prop-filter name="EMAIL"/></A:filter></A:addressbook-query>`, "application/xml"},
	{"invalid-match-type", "carddav", "REPORT", "coll", xmlHdr + `<A:addressbook-query xmlns:D="DAV:" xmlns:A="` + nsCard + `"><D:prop><D:getetag/></D:prop><A:filter><A:prop-filter name="EMAIL"><A:text-match match-type="sounds-like">x</A:text-match></A:prop-filter></A:filter></A:addressbook-query>`, "application/xml"},
	{"invalid-negate-condition", "carddav", "REPORT", "coll", xmlHdr + `<A:addressbook-query xmlns:D="DAV:" xmlns:A="` + nsCard + `"><D:prop><D:getetag/></D:prop><A:filter><A:prop-filter name="EMAIL"><A:text-match negate-condition="perhaps">x</A:text-match></A:prop-filter></A:filter></A:addressbook-query>`, "application/xml"},
	{"invalid-limit", "carddav", "REPORT", "coll", xmlHdr + `<A:addressbook-query xmlns:D="DAV:" xmlns:A="` + nsCard + `"><D:prop><D:getetag/></D:prop><A:filter><A:prop-filter name="EMAIL"/></A:filter><A:limit><A:nresults>-3</A:nresults></A:limit></A:addressbook-query>`, "application/xml"},
	{"limit-not-a-number", "carddav", "REPORT", "coll", xmlHdr + `<A:addressbook-query xmlns:D="DAV:" xmlns:A="` + nsCard + `"><D:prop><D:getetag/></D:prop><A:filter><A:prop-filter name="EMAIL"/></A:filter><A:limit><A:nresults>many</A:nresults></A:limit></A:addressbook-query>`, "application/xml"},
	{"address-data-allprop-and-prop", "carddav", "REPORT", "coll", xmlHdr + `<A:addressbook-multiget xmlns:D="DAV:" xmlns:A="` + nsCard + `"><D:prop><A:address-data><A:allprop/><A:prop name="FN"/></A:address-data></D:prop><D:href>/u/contacts/default/c0.vcf</D:href></A:addressbook-multiget>`, "application/xml"},
	{"report-wrong-root", "carddav", "REPORT", "coll", xmlHdr + `<D:sync-collection xmlns:D="DAV:"><D:sync-token/><D:sync-level>1</D:sync-level><D:prop><D:getetag/></D:prop></D:sync-collection>`, "application/xml"},
	{"put-not-vcard", "carddav", "PUT", "obj", "this is not a card", "text/vcard"},
	{"put-vcard-no-end", "carddav", "PUT", "obj", "BEGIN:VCARD\r\nVERSION:3.0\r\nFN:x\r\n", "text/vcard"},
	{"put-vcard-wrong-end", "carddav", "PUT", "obj", "BEGIN:VCARD\r\nVERSION:3.0\r\nFN:x\r\nEND:VCALENDAR\r\n", "text/vcard"},
	{"put-wrong-content-type", "carddav", "PUT", "obj", vcardDoc, "application/json"},
	{"mkcol-wrong-resourcetype", "carddav", "MKCOL", "newcoll", xmlHdr + `<D:mkcol xmlns:D="DAV:"><D:set><D:prop><D:resourcetype><D:collection/></D:resourcetype></D:prop></D:set></D:mkcol>`, "application/xml"},
	{"propfind-none-of-three", "carddav", "PROPFIND", "coll", xmlHdr + `<D:propfind xmlns:D="DAV:"/>`, "application/xml"},

	{"propfind-none-of-three", "webdav", "PROPFIND", "coll", xmlHdr + `<D:propfind xmlns:D="DAV:"/>`, "application/xml"},
	{"propfind-unparseable", "webdav", "PROPFIND", "coll", xmlHdr + `<D:propfind xmlns:D="DAV:"><D:prop><D:getetag>`, "application/xml"},
	{"propfind-body-without-xml-type", "webdav", "PROPFIND", "coll", `<D:propfind xmlns:D="DAV:"><D:allprop/></D:propfind>`, "text/plain"},
	{"proppatch-unparseable", "webdav", "PROPPATCH", "coll", `<<<`, "application/xml"},
	// ill-formed in ways a lenient (non-strict, HTML-entity) XML reader forgives
	{"mkcol-undeclared-entity", "caldav", "MKCOL", "newcoll", xmlHdr + `<D:mkcol xmlns:D="DAV:" xmlns:C="` + nsCal + `"><D:set><D:prop><D:resourcetype><D:collection/><C:calendar/></D:resourcetype><D:displayname>a&nbsp;b</D:displayname></D:prop></D:set></D:mkcol>`, "application/xml"},
	{"mkcol-mismatched-end-tag", "caldav", "MKCOL", "newcoll", xmlHdr + `<D:mkcol xmlns:D="DAV:" xmlns:C="` + nsCal + `"><D:set><D:prop><D:resourcetype><D:collection/><C:calendar/></D:resourcetype><D:displayname>x</D:displayName></D:prop></D:set></D:mkcol>`, "application/xml"},
	{"mkcol-unquoted-attribute", "carddav", "MKCOL", "newcoll", xmlHdr + `<D:mkcol xmlns:D="DAV:" xmlns:A="` + nsCard + `"><D:set><D:prop><D:resourcetype><D:collection/><A:addressbook/></D:resourcetype><D:displayname lang=en>x</D:displayname></D:prop></D:set></D:mkcol>`, "application/xml"},
	{"mkcol-valueless-attribute", "carddav", "MKCOL", "newcoll", xmlHdr + `<D:mkcol xmlns:D="DAV:" xmlns:A="` + nsCard + `"><D:set><D:prop><D:resourcetype><D:collection/><A:addressbook/></D:resourcetype><D:displayname hidden>x</D:displayname></D:prop></D:set></D:mkcol>`, "application/xml"},
	{"propfind-undeclared-entity", "webdav", "PROPFIND", "coll", xmlHdr + `<D:propfind xmlns:D="DAV:"><D:prop><D:getetag/>&nbsp;</D:prop></D:propfind>`, "application/xml"},
	{"propfind-mismatched-end-tag", "caldav", "PROPFIND", "coll", xmlHdr + `<D:propfind xmlns:D="DAV:"><D:prop><D:getetag></D:getEtag></D:prop></D:propfind>`, "application/xml"},
	{"report-unquoted-attribute", "carddav", "REPORT", "coll", xmlHdr + `<A:addressbook-query xmlns:D="DAV:" xmlns:A="` + nsCard + `"><D:prop><D:getetag/></D:prop><A:filter><A:prop-filter name=FN/></A:filter></A:addressbook-query>`, "application/xml"},
	{"report-mismatched-end-tag", "caldav", "REPORT", "coll", xmlHdr + `<C:calendar-query xmlns:D="DAV:" xmlns:C="` + nsCal + `"><D:prop><D:getetag/></D:Prop><C:filter><C:comp-filter name="VCALENDAR"/></C:filter></C:calendar-query>`, "application/xml"},
	// the shortest bodies there are: one byte
	{"propfind-one-byte-not-xml-type", "webdav", "PROPFIND", "coll", "x", "text/plain"},
	{"propfind-one-byte-not-xml-type", "caldav", "PROPFIND", "coll", "<", "text/plain"},
	{"propfind-one-byte-not-xml-type", "carddav", "PROPFIND", "coll", "x", "application/octet-stream"},
	{"propfind-one-byte-not-xml-type", "principal", "PROPFIND", "principal", " ", "text/plain"},
	{"propfind-one-byte", "webdav", "PROPFIND", "coll", "<", "application/xml"},
	{"propfind-two-bytes-not-xml-type", "webdav", "PROPFIND", "coll", "xy", "text/plain"},
	{"mkcol-one-byte", "caldav", "MKCOL", "newcoll", "x", "application/xml"},
	{"mkcol-one-byte", "carddav", "MKCOL", "newcoll", "<", "text/xml"},
	{"report-one-byte", "caldav", "REPORT", "coll", "<", "application/xml"},
	{"report-one-byte", "carddav", "REPORT", "coll", "x", "application/xml"},
	{"proppatch-one-byte", "webdav", "PROPPATCH", "coll", "<", "application/xml"},
	{"propfind-none-of-three", "principal", "PROPFIND", "principal", xmlHdr + `<D:propfind xmlns:D="DAV:"/>`, "application/xml"},
	{"propfind-unparseable", "principal", "PROPFIND", "principal", `<D:propfind`, "application/xml"},
}

// unsupportedDepth: values that are well-formed but that the RFC does not allow
// for the method (MOVE on a collection: infinity only; COPY: 0 or infinity).
var unsupportedDepth = map[string][]string{"MOVE": {"0", "1"}, "COPY": {"1"}}

// junkConditionals are If-Match / If-None-Match values from the edge of the
// grammar; a handler may refuse them (4xx) or ignore them, never panic.
var junkConditionals = []string{`"`, `W/"`, `W/`, `""`, `"\`, `\"`, `"a`, `a"`, `'`, `W/""`, `"\""`, "\"\x00\"", `"` + "\t" + `"`, `*, "a"`, `"a" , "b"`, `W/*`, `"\u`, `"\x4`, "\"\xff\""}

// exoticEncodings: XML declarations naming an encoding the server may or may
// not support. Supporting it (207) and refusing it (4xx) are both fine; a
// panic or a 5xx for a document the server simply cannot read is not.
var exoticEncodings = []string{"windows-1252", "UTF-16", "koi8-r", "ISO-8859-1", "US-ASCII", "utf-16le", "x-unknown", "EBCDIC-CP-US", ""}

var invalidHeaders = [][2]string{
	{"Depth", "2"}, {"Depth", "-1"}, {"Depth", "infinite"}, {"Depth", "0, 1"}, {"Depth", "1.0"},
	{"Overwrite", "X"}, {"Overwrite", "true"}, {"Overwrite", "TF"},
	{"Destination", "%zz"}, {"Destination", "http://[::1"}, {"Destination", ""},
}

var backendFaultKinds = []string{"http:403", "http:404", "http:409", "http:412", "http:500", "http:507", "plain", "precondition-cal", "precondition-card", "ctx"}

func (p davPaths) level(l string) string {
	switch l {
	case "root":
		return p.root
	case "principal":
		return p.principal
	case "home":
		return p.home
	case "coll":
		return p.coll
	case "obj":
		return p.obj
	case "newcoll":
		return p.newColl
	}
	return p.coll
}

// davRequest draws one well-formed, body-carrying or body-less request for a
// server kind.
func davRequest(r *rt.Rand, server string, p davPaths) *Step {
	st := &Step{DelayNS: 1000}
	xmlCT := rt.Pick(r, []string{"application/xml", "text/xml", `application/xml; charset="utf-8"`, `text/xml; charset=utf-8`})
	setBody := func(kind, body string) {
		st.Kind = kind
		st.Body = []byte(body)
		st.DocEnd = len(body)
	}
	names := calPropNames
	if server == "carddav" {
		names = cardPropNames
	}
	switch server {
	case "caldav", "carddav":
		switch r.Weighted([]int{30, 6, 8, 14, 12, 12, 6, 4, 4, 4, 5}) {
		case 10:
			st.Method, st.Target, st.Kind = rt.Pick(r, []string{"LOCK", "UNLOCK", "POST", "PATCH", "FOO", "ACL", "MKCALENDAR", "SEARCH", "TRACE", "propfind", "CONNECT"[:0] + "BIND"}), p.any(r), "unknown-method"
			if r.Chance(0.4) {
				setBody("unknown-method", propfindDoc(r, names))
				st.set("Content-Type", xmlCT)
			}
		case 0:
			st.Method, st.Target = "PROPFIND", p.any(r)
			if r.Chance(0.85) {
				setBody("propfind", propfindDoc(r, names))
				st.set("Content-Type", xmlCT)
			} else {
				st.Kind = "propfind-nobody"
			}
			if r.Chance(0.7) {
				st.set("Depth", rt.Pick(r, []string{"0", "1", "infinity"}))
			}
		case 1:
			st.Method, st.Target = "PROPPATCH", rt.Pick(r, []string{p.coll, p.home, p.obj})
			setBody("proppatch", proppatchDoc())
			st.set("Content-Type", xmlCT)
		case 2:
			st.Method, st.Target = "MKCOL", rt.Pick(r, []string{p.newColl, p.newColl, p.home, p.obj, p.root})
			if r.Chance(0.7) {
				setBody("mkcol", mkcolDoc(server))
				st.set("Content-Type", xmlCT)
			} else {
				st.Kind = "mkcol-nobody"
			}
		case 3:
			st.Method, st.Target = "REPORT", rt.Pick(r, []string{p.coll, p.coll, p.home, p.obj})
			if server == "caldav" {
				setBody("calendar-query", calQueryDoc(r))
			} else {
				setBody("addressbook-query", cardQueryDoc(r))
			}
			st.set("Content-Type", xmlCT)
			st.set("Depth", "1")
		case 4:
			st.Method, st.Target = "REPORT", rt.Pick(r, []string{p.coll, p.coll, p.home})
			if server == "caldav" {
				setBody("calendar-multiget", calMultigetDoc(r, p))
			} else {
				setBody("addressbook-multiget", cardMultigetDoc(r, p))
			}
			st.set("Content-Type", xmlCT)
		case 5:
			st.Method, st.Target = "PUT", rt.Pick(r, []string{p.obj, p.missingObj, p.missingObj, p.coll})
			if server == "caldav" {
				doc := icalDoc
				if r.Chance(0.4) {
					doc = rt.Pick(r, validIcalDocs)
				}
				setBody("put-ical", doc+"\r\n")
				st.DocEnd = len(doc)
				st.set("Content-Type", rt.Pick(r, []string{"text/calendar", "text/calendar; charset=utf-8"}))
			} else {
				doc := vcardDoc
				if r.Chance(0.4) {
					doc = rt.Pick(r, validVcardDocs)
				}
				setBody("put-vcard", doc+"\r\n")
				st.DocEnd = len(doc)
				st.set("Content-Type", rt.Pick(r, []string{"text/vcard", "text/vcard; charset=utf-8"}))
			}
			if r.Chance(0.4) {
				st.set(rt.Pick(r, []string{"If-Match", "If-None-Match"}), rt.Pick(r, passthroughValues))
			}
		case 6:
			st.Method, st.Target, st.Kind = rt.Pick(r, []string{"GET", "HEAD"}), rt.Pick(r, []string{p.obj, p.missingObj, p.coll}), "get"
		case 7:
			st.Method, st.Target, st.Kind = "DELETE", rt.Pick(r, []string{p.obj, p.missingObj, p.coll, p.home}), "delete"
			if r.Chance(0.2) {
				// any depth below the mount point, and paths the network may send
				st.Method, st.Target = rt.Pick(r, []string{"DELETE", "MKCOL", "DELETE", "MKCOL", "PUT", "COPY", "MOVE"}), rt.Pick(r, []string{p.deeper, p.deeper + "/y", p.deeper + "/y/z/w", p.obj + strings.Repeat("/d", 9), p.any(r), p.any(r)})
				st.Kind = "deep"
				if st.Method == "COPY" || st.Method == "MOVE" {
					st.set("Destination", p.newColl+"copied")
				}
			}
		case 8:
			st.Method, st.Target, st.Kind = "OPTIONS", p.any(r), "options"
		case 9:
			st.Method, st.Target, st.Kind = rt.Pick(r, []string{"COPY", "MOVE"}), p.obj, "copymove"
			st.set("Destination", p.missingObj)
			if r.Chance(0.5) {
				st.set("Overwrite", rt.Pick(r, []string{"T", "F"}))
			}
		}
	case "principal":
		if r.Chance(0.8) {
			st.Method, st.Target = "PROPFIND", "/principals/me/"
			setBody("propfind", propfindDoc(r, []string{"D:resourcetype", "D:current-user-principal", "C:calendar-home-set", "A:addressbook-home-set", "D:displayname"}))
			st.set("Content-Type", xmlCT)
		} else {
			st.Method, st.Target, st.Kind = rt.Pick(r, []string{"OPTIONS", "GET", "DELETE", "REPORT"}), "/principals/me/", "other"
		}
	default: // file server
		fp := rt.Pick(r, []string{"/", "/d/", "/d/f.txt", "/f", "/missing", "/d/missing"})
		switch r.Weighted([]int{40, 8, 8, 20, 24}) {
		case 0:
			st.Method, st.Target = "PROPFIND", fp
			if r.Chance(0.85) {
				setBody("propfind", propfindDoc(r, filePropNames))
				st.set("Content-Type", xmlCT)
			} else {
				st.Kind = "propfind-nobody"
			}
			if r.Chance(0.7) {
				st.set("Depth", rt.Pick(r, []string{"0", "1", "infinity"}))
			}
		case 1:
			st.Method, st.Target = "PROPPATCH", fp
			setBody("proppatch", proppatchDoc())
			st.set("Content-Type", xmlCT)
		case 2:
			st.Method, st.Target = "MKCOL", rt.Pick(r, []string{"/newdir", "/d/newdir", "/f"})
			if r.Chance(0.5) {
				setBody("mkcol", mkcolDoc("caldav"))
				st.set("Content-Type", xmlCT)
			} else {
				st.Kind = "mkcol-nobody"
			}
		case 3:
			st.Method, st.Target = "PUT", rt.Pick(r, []string{"/f", "/d/f.txt", "/new", "/d/new", "/d"})
			setBody("put-file", "file content "+strings.Repeat("x", r.Intn(200)))
		default:
			st.Method, st.Target, st.Kind = rt.Pick(r, []string{"GET", "HEAD", "DELETE", "OPTIONS", "COPY", "MOVE", "COPY", "MOVE", "LOCK", "POST"}), fp, "other"
			if st.Method == "COPY" || st.Method == "MOVE" {
				st.set("Destination", "/copied")
			}
		}
	}
	return st
}

var passthroughValues = []string{"*", `"abc"`, `W/"weak"`, "unquoted", `"with space"`, `"a", "b"`, `"ünï"`, `"q\"q"`, `""`, "**", `"` + strings.Repeat("long", 50) + `"`}

// GenC13 builds a run against one server kind: valid exchanges, each of which
// may meet one fault (request stream cut with an error or a clean EOF at a
// seeded or structural offset, a failing backend/disk call, an invalid header
// value) or be replaced by a hand-written malformed document.
func GenC13(seed uint64, tier string) *Plan {
	r := rt.NewRand(seed)
	pl := &Plan{Format: 1, Property: "C13", Profile: "dav-server-faults", RunSeed: seed, Config: Config{Store: "localfs", RootName: RootName}}
	cfg := &pl.Config
	cfg.Server = rt.Pick(r, []string{"caldav", "caldav", "carddav", "carddav", "webdav-mem", "webdav-local", "principal"})
	cfg.Prefix = rt.Pick(r, []string{"", "", "/dav", "/a/b", "/dav/"})
	cfg.WorldSeed = r.Uint64()
	if cfg.Server == "webdav-mem" {
		cfg.Store = "memfs"
		cfg.MemfsSeed = r.Uint64()
	}
	if strings.HasPrefix(cfg.Server, "webdav") {
		pl.Setup = []SetupOp{{Mkcol: "/d"}, {Put: "/d/f.txt", Data: []byte("hello")}, {Put: "/f", Data: []byte("root file")}}
	}
	kind := strings.TrimSuffix(strings.TrimSuffix(cfg.Server, "-mem"), "-local")
	p := pathsFor(kind, strings.TrimSuffix(cfg.Prefix, "/"))
	n := r.Range(3, 12)
	for i := 0; i < n; i++ {
		st := davRequest(r, kind, p)
		switch f := r.Weighted([]int{20, 30, 22, 8, 14}); {
		case f == 1 && len(st.Body) > 0: // stream cut
			at := r.Intn(len(st.Body) + 1)
			if r.Chance(0.3) { // structural boundaries
				var cand []int
				for k, c := range st.Body {
					if c == '<' || c == '>' || c == '"' || c == '\n' || c == ':' {
						cand = append(cand, k, k+1)
					}
				}
				if len(cand) > 0 {
					at = rt.Pick(r, cand)
				}
			}
			if r.Chance(0.08) {
				at = rt.Pick(r, []int{0, 1, len(st.Body) - 1, len(st.Body)})
			}
			if at < 0 {
				at = 0
			}
			st.Faults = []Fault{{Seam: "req-body", At: at, Kind: rt.Pick(r, []string{"clean-eof", "clean-eof", "unexpected-eof", "custom-error", "cancel"})}}
			st.Chunk = rt.Pick(r, []int{0, 1, -16, 7, 512})
			st.Chunked = r.Chance(0.4)
		case f == 2: // dependency fault
			if cfg.Server == "webdav-local" {
				st.Faults = []Fault{{Seam: "disk", At: r.Intn(8), Kind: rt.Pick(r, diskErrnos)}}
			} else {
				st.Faults = []Fault{{Seam: "backend", At: r.Intn(6), Kind: rt.Pick(r, backendFaultKinds)}}
			}
		case f == 3 && r.Chance(0.3) && (st.Method == "PUT" || st.Method == "DELETE"): // junk conditional header
			st.set(rt.Pick(r, []string{"If-Match", "If-None-Match"}), rt.Pick(r, junkConditionals))
			if r.Chance(0.3) {
				st.set(rt.Pick(r, []string{"If-Match", "If-None-Match"}), rt.Pick(r, junkConditionals))
			}
		case f == 3 && r.Chance(0.25) && unsupportedDepth[st.Method] != nil && strings.HasPrefix(cfg.Server, "webdav"):
			v := rt.Pick(r, unsupportedDepth[st.Method])
			var hs [][2]string
			for _, x := range st.Headers {
				if x[0] != "Depth" {
					hs = append(hs, x)
				}
			}
			st.Headers = append(hs, [2]string{"Depth", v})
			st.Malformed = "header:Depth=" + v + " (unsupported for " + st.Method + ")"
		case f == 0 && len(st.Body) > 0 && isXMLMethod(st.Method) && r.Chance(0.08):
			enc := rt.Pick(r, exoticEncodings)
			body := string(st.Body)
			if i := strings.Index(body, "?>"); i >= 0 {
				body = `<?xml version="1.0" encoding="` + enc + `"?>` + body[i+2:]
				st.Body = []byte(body)
				st.DocEnd = len(body)
				st.Kind += "+encoding"
			}
		case f == 3: // invalid header value
			h := rt.Pick(r, invalidHeaders)
			applies := (h[0] == "Depth" && (st.Method == "PROPFIND" || st.Method == "COPY" || st.Method == "MOVE")) || (h[0] != "Depth" && (st.Method == "COPY" || st.Method == "MOVE"))
			if applies {
				var hs [][2]string
				for _, x := range st.Headers {
					if x[0] != h[0] {
						hs = append(hs, x)
					}
				}
				st.Headers = append(hs, h)
				st.Malformed = "header:" + h[0] + "=" + h[1]
				if st.Method == "COPY" || st.Method == "MOVE" {
					// other, valid headers around it: parsing them must not mask the bad one
					if h[0] != "Depth" && r.Chance(0.6) {
						st.set("Depth", "infinity")
					}
					if h[0] != "Overwrite" && r.Chance(0.5) {
						st.set("Overwrite", rt.Pick(r, []string{"T", "F"}))
					}
					if h[0] != "Destination" {
						if _, ok := st.Header("Destination"); !ok {
							st.set("Destination", "/copied-"+fmt.Sprint(r.Intn(9)))
						}
					}
				}
			}
		case f == 4: // hand-written malformed document
			var cand []malformedDoc
			for _, d := range malformedDocs {
				if d.Server == kind {
					cand = append(cand, d)
				}
			}
			if (kind == "caldav" || kind == "carddav") && r.Chance(0.5) {
				// composed: a rule of the list planted somewhere else, the rest of
				// the document varied around it (davcompose.go)
				pool := []string{p.obj, p.obj, p.missingObj, strings.Replace(p.obj, "0.", "1.", 1), p.coll}
				var name, body string
				if kind == "caldav" {
					name, body = composeCalDAV(r, pool)
				} else {
					name, body = composeCardDAV(r, pool)
				}
				st = &Step{DelayNS: 1000, Method: "REPORT", Target: p.coll, Body: []byte(body), DocEnd: len(body), Kind: "malformed", Malformed: "doc:" + name}
				st.set("Content-Type", rt.Pick(r, []string{"application/xml", "text/xml", "application/xml; charset=utf-8"}))
				if r.Chance(0.8) {
					st.set("Depth", rt.Pick(r, []string{"1", "1", "0"}))
				}
				st.Chunk = rt.Pick(r, []int{0, 1, 7})
				st.Chunked = r.Chance(0.3)
			} else if len(cand) > 0 {
				d := rt.Pick(r, cand)
				st = &Step{DelayNS: 1000, Method: d.Method, Target: p.level(d.Level), Body: []byte(d.Body), DocEnd: len(d.Body), Kind: "malformed", Malformed: "doc:" + d.Name}
				if kind == "webdav" {
					st.Target = rt.Pick(r, []string{"/", "/d/", "/f"})
				}
				if kind == "principal" {
					st.Target = "/principals/me/"
				}
				st.set("Content-Type", d.CType)
				if d.Method == "REPORT" {
					st.set("Depth", "1")
				}
				st.Chunk = rt.Pick(r, []int{0, 1, 7})
				st.Chunked = r.Chance(0.4) && len(st.Body) > 0
			}
		}
		if len(st.Body) > 0 && len(st.Faults) == 0 && st.Malformed == "" {
			st.Chunked = r.Chance(0.25)
		}
		if len(st.Faults) == 0 && (st.Method == "PROPFIND" || st.Method == "REPORT" || st.Method == "GET") && r.Chance(0.06) {
			// the client hangs up while the answer is being written
			st.Faults = append(st.Faults, Fault{Seam: "resp-write", At: rt.Pick(r, []int{0, 1, 39, 200, 1000, r.Intn(4000)}), Kind: "broken-pipe"})
		}
		pl.Steps = append(pl.Steps, *st)
	}
	return pl
}

// GenC13Exhaustive cuts one request document at EVERY offset, with a clean EOF
// and with a read error (thorough tier and a share of quick runs).
func GenC13Exhaustive(seed uint64, tier string) *Plan {
	r := rt.NewRand(seed)
	pl := &Plan{Format: 1, Property: "C13", Profile: "dav-every-offset", RunSeed: seed, Config: Config{Store: "localfs", RootName: RootName}}
	cfg := &pl.Config
	cfg.Server = rt.Pick(r, []string{"caldav", "carddav", "webdav-mem", "principal"})
	cfg.WorldSeed = r.Uint64()
	if cfg.Server == "webdav-mem" {
		cfg.Store = "memfs"
		cfg.MemfsSeed = r.Uint64()
		pl.Setup = []SetupOp{{Mkcol: "/d"}, {Put: "/d/f.txt", Data: []byte("hello")}, {Put: "/f", Data: []byte("root file")}}
	}
	kind := strings.TrimSuffix(cfg.Server, "-mem")
	p := pathsFor(kind, "")
	var base *Step
	for try := 0; try < 50; try++ {
		base = davRequest(r, kind, p)
		if len(base.Body) > 0 && len(base.Body) <= 2048 {
			break
		}
	}
	if len(base.Body) == 0 {
		return GenC13(seed, tier)
	}
	kinds := []string{"clean-eof", rt.Pick(r, []string{"unexpected-eof", "custom-error", "cancel"})}
	for at := 0; at <= len(base.Body); at++ {
		for _, k := range kinds {
			st := *base
			st.Headers = append([][2]string{}, base.Headers...)
			st.Faults = []Fault{{Seam: "req-body", At: at, Kind: k}}
			st.Chunk = rt.Pick(r, []int{0, 1, 7})
			pl.Steps = append(pl.Steps, st)
		}
	}
	return pl
}

// GenC04Passthrough: conditional headers on CalDAV/CardDAV PUT must reach the
// backend unaltered.
func GenC04Passthrough(seed uint64, tier string) *Plan {
	r := rt.NewRand(seed)
	pl := &Plan{Format: 1, Property: "C04", Profile: "dav-passthrough", RunSeed: seed, Config: Config{Store: "localfs", RootName: RootName}}
	cfg := &pl.Config
	cfg.Server = rt.Pick(r, []string{"caldav", "carddav"})
	cfg.Prefix = rt.Pick(r, []string{"", "/dav"})
	cfg.WorldSeed = r.Uint64()
	p := pathsFor(cfg.Server, cfg.Prefix)
	for i, n := 0, r.Range(2, 10); i < n; i++ {
		st := &Step{DelayNS: 1000, Method: "PUT", Target: rt.Pick(r, []string{p.obj, p.missingObj}), Kind: "put-passthrough"}
		if cfg.Server == "caldav" {
			st.Body = []byte(icalDoc + "\r\n")
			st.set("Content-Type", "text/calendar")
		} else {
			st.Body = []byte(vcardDoc + "\r\n")
			st.set("Content-Type", "text/vcard")
		}
		st.DocEnd = len(st.Body)
		switch r.Intn(4) {
		case 0:
			st.set("If-Match", rt.Pick(r, passthroughValues))
		case 1:
			st.set("If-None-Match", rt.Pick(r, passthroughValues))
		case 2:
			st.set("If-Match", rt.Pick(r, passthroughValues))
			st.set("If-None-Match", rt.Pick(r, passthroughValues))
		default:
			// no conditional header at all: the backend must see none either,
			// whatever the requests before this one carried
		}
		if r.Chance(0.25) {
			// a PUT that is refused before it reaches the backend (still
			// carrying its conditional headers)
			switch r.Intn(3) {
			case 0:
				st.Headers[0][1] = "application/json"
			case 1:
				st.Headers[0][1] = "text/calendar; charset"
			default:
				st.Body = []byte("BEGIN:NOTHING\r\nthis does not parse\r\n")
				st.DocEnd = len(st.Body)
			}
			st.Kind = "put-passthrough-refused"
		}
		pl.Steps = append(pl.Steps, *st)
	}
	return pl
}
