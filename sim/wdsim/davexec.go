//go:build go1.25

package wdsim

import (
	"bytes"
	"fmt"
	"net/http"
	"strings"

	webdav "github.com/emersion/go-webdav"
	"github.com/emersion/go-webdav/caldav"
	"github.com/emersion/go-webdav/carddav"
	"github.com/emersion/go-webdav/vsim/model"
)

// davServer builds the handler (and recording backend) a dav plan asks for.
func (ex *executor) davServer() {
	cfg := &ex.plan.Config
	prefix := strings.TrimSuffix(cfg.Prefix, "/")
	switch cfg.Server {
	case "caldav":
		b := newCalBackend(prefix, cfg.WorldSeed)
		ex.bk = &b.bkCore
		ex.calBk = b
		ex.h = &caldav.Handler{Backend: b, Prefix: cfg.Prefix}
	case "carddav":
		b := newCardBackend(prefix, cfg.WorldSeed)
		ex.bk = &b.bkCore
		ex.cardBk = b
		ex.h = &carddav.Handler{Backend: b, Prefix: cfg.Prefix}
	case "principal":
		ex.bk = &bkCore{}
		ex.h = http.HandlerFunc(func(w http.ResponseWriter, r *http.Request) {
			webdav.ServePrincipal(w, r, &webdav.ServePrincipalOptions{
				CurrentUserPrincipalPath: "/principals/me/",
				HomeSets:                 []webdav.BackendSuppliedHomeSet{caldav.NewCalendarHomeSet("/cal/me/"), carddav.NewAddressBookHomeSet("/card/me/")},
				Capabilities:             []webdav.Capability{caldav.CapabilityCalendar, carddav.CapabilityAddressBook},
			})
		})
	case "webdav-mem":
		if m := ex.mem(); m != nil {
			ex.bk = &m.bkCore
		}
	}
}

func isXMLMethod(m string) bool {
	switch m {
	case "PROPFIND", "PROPPATCH", "REPORT", "MKCOL":
		return true
	}
	return false
}

// judgeDav applies the C13 rules (and the C04 pass-through clause) to one
// exchange with a CalDAV/CardDAV/WebDAV/principal server.
func (ex *executor) judgeDav(idx int, st *Step, xc *Exchange) {
	cfg := &ex.plan.Config
	kind := st.Kind
	if kind == "" {
		kind = st.Method
	}
	class := cfg.Server + " " + st.Method + " " + kind
	add := func(prop, clause, msg string) {
		ex.finding(Violation{Prop: prop, Clause: clause, Class: class, Msg: msg, Step: idx})
	}
	status := xc.Resp.Status
	var fired []*Fault
	var mutating []string
	if ex.bk != nil {
		fired = ex.bk.Fired
		mutating = ex.bk.mutatingCalls()
		for _, f := range fired {
			ex.res.Stats.FaultsFired["backend:"+f.Kind]++
		}
	}
	// (1) a panic is reported by the caller; a 207 must be a complete document
	if status == 207 && !xc.RespCut {
		if _, err := model.ParseMultiStatus(xc.Resp.Body); err != nil {
			add("C13", "incomplete-response", fmt.Sprintf("the 207 body is not a complete multi-status document: %v; body %q", err, clipS(string(xc.Resp.Body), 300)))
		}
	}
	davPut := st.Method == "PUT" && (cfg.Server == "caldav" || cfg.Server == "carddav")
	carriesDoc := len(st.Body) > 0 && (isXMLMethod(st.Method) || davPut) && st.Malformed == ""
	inside := xc.BodyFault != nil && (xc.BodyFailed || xc.BodyCut) && xc.Delivered < st.DocEnd
	// a clean end of stream before the first byte is simply "no body", which
	// is a valid request for MKCOL and PROPFIND
	if inside && xc.BodyCut && xc.Delivered == 0 && (st.Method == "MKCOL" || st.Method == "PROPFIND") {
		inside = false
	}
	// a redirect (well-known URI) is given before anything is parsed
	wellKnown := strings.HasPrefix(xc.Req.Path, "/.well-known/")
	malformed := ""
	switch {
	case wellKnown:
	case st.Malformed != "":
		malformed = st.Malformed
	case inside && carriesDoc:
		malformed = fmt.Sprintf("stream %s at byte %d of %d (document ends at %d)", xc.BodyFault.Kind, xc.Delivered, len(st.Body), st.DocEnd)
	}
	if malformed != "" {
		// (2) malformed -> 4xx, never 2xx, never 5xx
		reached := true
		if strings.HasPrefix(malformed, "stream") {
			// the handler may legitimately refuse before it ever reads the body
			// (wrong level, unknown resource): that is judged by its status only
			reached = true
		}
		if reached && !(status >= 400 && status < 500) {
			clause := "cut-not-4xx"
			if strings.HasPrefix(malformed, "header:") {
				clause = "invalid-header-status"
			} else if strings.HasPrefix(malformed, "doc:") {
				clause = "malformed-not-4xx"
			}
			add("C13", clause, fmt.Sprintf("malformed request (%s) was answered %d %q", malformed, status, clipS(string(xc.Resp.Body), 200)))
		}
		// (3) and causes no create/update/delete on the backend
		if len(mutating) > 0 {
			add("C13", "mutation-after-cut", fmt.Sprintf("malformed request (%s) reached the backend: %v", malformed, mutating))
		}
		ex.res.Stats.NT("C13|" + class + "|" + malformedClass(malformed, xc, st))
	}
	if strings.HasSuffix(st.Kind, "+encoding") && malformed == "" && status == 500 && len(fired) == 0 && len(ex.seam.Fired) == 0 && (ex.bk == nil || ex.bk.OwnErr == "") {
		add("C13", "malformed-not-4xx", fmt.Sprintf("a document in an encoding the server cannot read was answered %d %q (it may be read, or refused with 4xx)", status, clipS(string(xc.Resp.Body), 200)))
	}
	if st.Method == "PUT" && !davPut && xc.BodyFailed && status < 400 {
		add("C13", "cut-not-4xx", fmt.Sprintf("the upload stream failed at byte %d but the file server answered %d", xc.Delivered, status))
	}
	// (4) dependency faults: no panic, a complete response (checked above); the
	// status mapping itself is not part of the statement and only counted
	for _, f := range fired {
		want := faultStatus(f.Kind)
		if status == want || (status == 207 && bytes.Contains(xc.Resp.Body, []byte(fmt.Sprintf(" %d ", want)))) {
			ex.probe("backend-fault-answered-with-its-status")
		} else {
			ex.probe("backend-fault-answered-otherwise")
		}
		ex.res.Stats.NT("C13|" + class + "|backend-fault " + f.Op + " " + f.Kind)
	}
	for _, f := range ex.seam.Fired {
		ex.res.Stats.NT("C13|" + class + "|disk-fault " + f.Op + " " + f.Kind)
	}
	// C04: conditional headers reach a CalDAV/CardDAV backend unaltered
	if davPut && ex.bk != nil {
		for _, c := range ex.bk.Calls {
			if !strings.HasPrefix(c.Op, "Put") {
				continue
			}
			im, inm := xc.Req.H["If-Match"], xc.Req.H["If-None-Match"]
			if c.IfMatch != im || c.IfNoneMatch != inm {
				add("C04", "passthrough-altered", fmt.Sprintf("PUT carried If-Match %q / If-None-Match %q; the backend received %q / %q", im, inm, c.IfMatch, c.IfNoneMatch))
			}
			if im != "" || inm != "" {
				ex.res.Stats.NT("C04|passthrough " + cfg.Server + " " + im + "|" + inm)
				ex.probe("conditional-passthrough-compared")
			}
		}
	}
}

func malformedClass(m string, xc *Exchange, st *Step) string {
	if strings.HasPrefix(m, "stream") {
		// bucket the cut position: which tenth of the document
		tenth := 0
		if st.DocEnd > 0 {
			tenth = xc.Delivered * 10 / st.DocEnd
		}
		return fmt.Sprintf("cut %s tenth=%d", xc.BodyFault.Kind, tenth)
	}
	return m
}
