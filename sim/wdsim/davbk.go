//go:build go1.25

package wdsim

import (
	"context"
	"fmt"
	"net/http"
	"sort"
	"strings"
	"time"

	"github.com/emersion/go-ical"
	"github.com/emersion/go-vcard"
	webdav "github.com/emersion/go-webdav"
	"github.com/emersion/go-webdav/caldav"
	"github.com/emersion/go-webdav/carddav"
	"github.com/emersion/go-webdav/vsim/rt"
)

// bkCall is one call a handler made on a recording backend double.
type bkCall struct {
	Op, Path             string
	Mutating             bool
	IfMatch, IfNoneMatch string
	Injected             string
}

// bkCore is what the CalDAV and CardDAV doubles share: the call record of the
// current request and the fault plan (fail the j-th call of the request).
type bkCore struct {
	Calls  []bkCall
	faults map[int]*Fault
	Fired  []*Fault
	Prefix string
	OwnErr string // the double itself could not answer (its own evaluation of a query failed on what it stores): not a planned fault, not the handler's doing either
}

func (b *bkCore) begin(faults []Fault) {
	b.Calls = nil
	b.faults = nil
	b.Fired = nil
	b.OwnErr = ""
	for i := range faults {
		if faults[i].Seam == "backend" {
			if b.faults == nil {
				b.faults = map[int]*Fault{}
			}
			b.faults[faults[i].At] = &faults[i]
		}
	}
}

// faultError builds the error an injected backend fault returns.
func faultError(kind string) error {
	switch {
	case strings.HasPrefix(kind, "http:"):
		var code int
		fmt.Sscanf(kind[5:], "%d", &code)
		return webdav.NewHTTPError(code, fmt.Errorf("vsim: injected backend failure"))
	case kind == "precondition-cal":
		return caldav.NewPreconditionError(caldav.PreconditionNoUIDConflict)
	case kind == "precondition-card":
		return carddav.NewPreconditionError(carddav.PreconditionNoUIDConflict)
	case kind == "ctx":
		return context.Canceled
	}
	return fmt.Errorf("vsim: injected plain backend error")
}

// faultStatus is the status a top-level failure of that kind must be answered with.
func faultStatus(kind string) int {
	switch {
	case strings.HasPrefix(kind, "http:"):
		var code int
		fmt.Sscanf(kind[5:], "%d", &code)
		return code
	case strings.HasPrefix(kind, "precondition"):
		return 409
	}
	return 500
}

func (b *bkCore) enter(op, path string, mutating bool, im, inm string) error {
	j := len(b.Calls)
	c := bkCall{Op: op, Path: path, Mutating: mutating, IfMatch: im, IfNoneMatch: inm}
	if f := b.faults[j]; f != nil {
		f.Op = op
		f.Note = path
		b.Fired = append(b.Fired, f)
		c.Injected = f.Kind
		b.Calls = append(b.Calls, c)
		return faultError(f.Kind)
	}
	b.Calls = append(b.Calls, c)
	return nil
}

func (b *bkCore) mutatingCalls() []string {
	var out []string
	for _, c := range b.Calls {
		if c.Mutating && c.Injected == "" {
			out = append(out, c.Op+" "+c.Path)
		}
	}
	return out
}

func nf(what string) error {
	return webdav.NewHTTPError(http.StatusNotFound, fmt.Errorf("%s not found", what))
}

// ---- CalDAV double ---------------------------------------------------------------

type calBackend struct {
	bkCore
	principal, home string
	cals            []caldav.Calendar
	objs            map[string]*caldav.CalendarObject
	created         []caldav.Calendar
}

func newEvent(uid, summary string, start time.Time) *ical.Calendar {
	cal := ical.NewCalendar()
	cal.Props.SetText(ical.PropVersion, "2.0")
	cal.Props.SetText(ical.PropProductID, "-//vsim//EN")
	ev := ical.NewEvent()
	ev.Props.SetText(ical.PropUID, uid)
	ev.Props.SetText(ical.PropSummary, summary)
	ev.Props.SetDateTime(ical.PropDateTimeStamp, start)
	ev.Props.SetDateTime(ical.PropDateTimeStart, start)
	ev.Props.SetDateTime(ical.PropDateTimeEnd, start.Add(time.Hour))
	cal.Children = append(cal.Children, ev.Component)
	return cal
}

func newCalBackend(prefix string, seed uint64) *calBackend {
	r := rt.NewRand(seed)
	b := &calBackend{principal: prefix + "/u/", home: prefix + "/u/cal/", objs: map[string]*caldav.CalendarObject{}}
	b.Prefix = prefix
	names := []string{"work", "home", "a b", "ü"}
	n := 1 + r.Intn(3)
	for i := 0; i < n; i++ {
		c := caldav.Calendar{Path: b.home + names[i] + "/", Name: rt.Pick(r, []string{"", "Work", "Zoë & <co>", "q\"q"}), Description: rt.Pick(r, []string{"", "desc", "multi\nline"}), MaxResourceSize: int64(r.Intn(3) * 4096)}
		if r.Chance(0.5) {
			c.SupportedComponentSet = []string{"VEVENT", "VTODO"}
		}
		b.cals = append(b.cals, c)
		for k := 0; k < r.Intn(4); k++ {
			p := fmt.Sprintf("%se%d.ics", c.Path, k)
			data := newEvent(fmt.Sprintf("uid-%d-%d", i, k), rt.Pick(r, []string{"Lunch", "Meeting; with, commas", "Ünïcode", "a\\b"}), time.Date(2024, 1, 1+k, 10, 0, 0, 0, time.UTC))
			switch r.Intn(12) {
			case 3: // recurring, with a duration instead of an end
				data.Children[0].Props.Del(ical.PropDateTimeEnd)
				data.Children[0].Props.SetText(ical.PropDuration, "PT45M")
				rr := ical.NewProp(ical.PropRecurrenceRule)
				rr.Value = rt.Pick(r, []string{"FREQ=WEEKLY;COUNT=3", "FREQ=DAILY;UNTIL=20240110T000000Z", "FREQ=MONTHLY;BYMONTHDAY=31", "FREQ=YEARLY;INTERVAL=2;BYMONTH=2;BYMONTHDAY=29"})
				data.Children[0].Props.Set(rr)
			case 4: // local time in a zone the object does not define; an alarm inside
				st := ical.NewProp(ical.PropDateTimeStart)
				st.Value = "20240102T100000"
				st.Params.Set(ical.PropTimezoneID, rt.Pick(r, []string{"Europe/Paris", "America/New_York", "Nowhere/Land"}))
				data.Children[0].Props.Set(st)
				data.Children[0].Props.Del(ical.PropDateTimeEnd)
				al := ical.NewComponent(ical.CompAlarm)
				al.Props.SetText(ical.PropAction, "DISPLAY")
				al.Props.SetText(ical.PropDescription, "soon")
				al.Props.SetText(ical.PropTrigger, "-PT15M")
				data.Children[0].Children = append(data.Children[0].Children, al)
			case 5: // floating time, end before start
				st := ical.NewProp(ical.PropDateTimeStart)
				st.Value = "20240102T100000"
				data.Children[0].Props.Set(st)
				en := ical.NewProp(ical.PropDateTimeEnd)
				en.Value = "20240101T100000"
				data.Children[0].Props.Set(en)
			case 0: // no SUMMARY, no DTEND
				data.Children[0].Props.Del(ical.PropSummary)
				data.Children[0].Props.Del(ical.PropDateTimeEnd)
			case 1: // a to-do
				data.Children[0].Name = ical.CompToDo
				data.Children[0].Props.Del(ical.PropDateTimeEnd)
			case 2: // an all-day event: properties with parameters
				data.Children[0].Props.Del(ical.PropDateTimeEnd)
				data.Children[0].Props.SetDate(ical.PropDateTimeStart, time.Date(2024, 1, 1+k, 0, 0, 0, 0, time.UTC))
				at := ical.NewProp(ical.PropAttendee)
				at.Value = "mailto:ann@example.org"
				at.Params.Set(ical.ParamParticipationStatus, "NEEDS-ACTION")
				at.Params.Set(ical.ParamCommonName, "Ann; the first, of: many")
				data.Children[0].Props.Add(at)
			}
			b.objs[p] = &caldav.CalendarObject{Path: p, ModTime: time.Date(2024, 1, 1, 0, 0, k, 0, time.UTC), ContentLength: int64(100 + k), ETag: fmt.Sprintf("tag-%d-%d", i, k), Data: data}
		}
	}
	return b
}

func (b *calBackend) CurrentUserPrincipal(ctx context.Context) (string, error) {
	if err := b.enter("CurrentUserPrincipal", "", false, "", ""); err != nil {
		return "", err
	}
	return b.principal, nil
}

func (b *calBackend) CalendarHomeSetPath(ctx context.Context) (string, error) {
	if err := b.enter("CalendarHomeSetPath", "", false, "", ""); err != nil {
		return "", err
	}
	return b.home, nil
}

func (b *calBackend) CreateCalendar(ctx context.Context, c *caldav.Calendar) error {
	if err := b.enter("CreateCalendar", c.Path, true, "", ""); err != nil {
		return err
	}
	b.created = append(b.created, *c)
	return nil
}

func (b *calBackend) ListCalendars(ctx context.Context) ([]caldav.Calendar, error) {
	if err := b.enter("ListCalendars", "", false, "", ""); err != nil {
		return nil, err
	}
	return append([]caldav.Calendar(nil), b.cals...), nil
}

func (b *calBackend) GetCalendar(ctx context.Context, path string) (*caldav.Calendar, error) {
	if err := b.enter("GetCalendar", path, false, "", ""); err != nil {
		return nil, err
	}
	for i := range b.cals {
		if b.cals[i].Path == path || strings.TrimSuffix(b.cals[i].Path, "/") == path {
			c := b.cals[i]
			return &c, nil
		}
	}
	return nil, nf("calendar")
}

func (b *calBackend) GetCalendarObject(ctx context.Context, path string, req *caldav.CalendarCompRequest) (*caldav.CalendarObject, error) {
	if err := b.enter("GetCalendarObject", path, false, "", ""); err != nil {
		return nil, err
	}
	if o := b.objs[path]; o != nil {
		c := *o
		return &c, nil
	}
	return nil, nf("calendar object")
}

func (b *calBackend) sortedObjs(prefix string) []caldav.CalendarObject {
	var ks []string
	for p := range b.objs {
		if strings.HasPrefix(p, prefix) {
			ks = append(ks, p)
		}
	}
	sort.Strings(ks)
	var out []caldav.CalendarObject
	for _, p := range ks {
		out = append(out, *b.objs[p])
	}
	return out
}

func (b *calBackend) ListCalendarObjects(ctx context.Context, path string, req *caldav.CalendarCompRequest) ([]caldav.CalendarObject, error) {
	if err := b.enter("ListCalendarObjects", path, false, "", ""); err != nil {
		return nil, err
	}
	return b.sortedObjs(path), nil
}

func (b *calBackend) QueryCalendarObjects(ctx context.Context, path string, q *caldav.CalendarQuery) ([]caldav.CalendarObject, error) {
	if err := b.enter("QueryCalendarObjects", path, false, "", ""); err != nil {
		return nil, err
	}
	res, err := caldav.Filter(q, b.sortedObjs(path))
	if err != nil {
		b.OwnErr = err.Error()
	}
	return res, err
}

func (b *calBackend) PutCalendarObject(ctx context.Context, path string, cal *ical.Calendar, opts *caldav.PutCalendarObjectOptions) (*caldav.CalendarObject, error) {
	if err := b.enter("PutCalendarObject", path, true, string(opts.IfMatch), string(opts.IfNoneMatch)); err != nil {
		return nil, err
	}
	o := &caldav.CalendarObject{Path: path, ModTime: time.Date(2024, 6, 1, 0, 0, 0, 0, time.UTC), ETag: "put-tag", Data: cal}
	b.objs[path] = o
	c := *o
	return &c, nil
}

func (b *calBackend) DeleteCalendarObject(ctx context.Context, path string) error {
	if err := b.enter("DeleteCalendarObject", path, true, "", ""); err != nil {
		return err
	}
	if b.objs[path] == nil {
		return nf("calendar object")
	}
	delete(b.objs, path)
	return nil
}

// ---- CardDAV double ----------------------------------------------------------------

type cardBackend struct {
	bkCore
	principal, home string
	books           []carddav.AddressBook
	objs            map[string]*carddav.AddressObject
	created         []carddav.AddressBook
}

func newCard(fn, email string) vcard.Card {
	c := make(vcard.Card)
	c.SetValue(vcard.FieldVersion, "3.0")
	c.SetValue(vcard.FieldFormattedName, fn)
	c.SetValue(vcard.FieldEmail, email)
	c.SetValue(vcard.FieldUID, "urn:uid:"+fn)
	return c
}

func newCardBackend(prefix string, seed uint64) *cardBackend {
	r := rt.NewRand(seed)
	b := &cardBackend{principal: prefix + "/u/", home: prefix + "/u/contacts/", objs: map[string]*carddav.AddressObject{}}
	b.Prefix = prefix
	names := []string{"default", "other", "a b"}
	n := 1 + r.Intn(3)
	for i := 0; i < n; i++ {
		ab := carddav.AddressBook{Path: b.home + names[i] + "/", Name: rt.Pick(r, []string{"", "Contacts", "Zoë & <co>"}), Description: rt.Pick(r, []string{"", "desc"}), MaxResourceSize: int64(r.Intn(3) * 1024)}
		if r.Chance(0.5) {
			ab.SupportedAddressData = []carddav.AddressDataType{{ContentType: "text/vcard", Version: "3.0"}, {ContentType: "text/vcard", Version: "4.0"}}
		}
		b.books = append(b.books, ab)
		for k := 0; k < r.Intn(4); k++ {
			p := fmt.Sprintf("%sc%d.vcf", ab.Path, k)
			b.objs[p] = &carddav.AddressObject{Path: p, ModTime: time.Date(2024, 2, 1, 0, 0, k, 0, time.UTC), ContentLength: int64(50 + k), ETag: fmt.Sprintf("ctag-%d-%d", i, k),
				Card: newCard(rt.Pick(r, []string{"Ann", "Bob; Jr, III", "Zoë"}), fmt.Sprintf("p%d@example.org", k))}
			// what the interfaces permit: a stored card needs neither UID nor EMAIL
			switch r.Intn(6) {
			case 0:
				delete(b.objs[p].Card, vcard.FieldUID)
			case 1:
				delete(b.objs[p].Card, vcard.FieldEmail)
				b.objs[p].Card.SetValue(vcard.FieldVersion, "4.0")
			}
		}
	}
	return b
}

func (b *cardBackend) CurrentUserPrincipal(ctx context.Context) (string, error) {
	if err := b.enter("CurrentUserPrincipal", "", false, "", ""); err != nil {
		return "", err
	}
	return b.principal, nil
}

func (b *cardBackend) AddressBookHomeSetPath(ctx context.Context) (string, error) {
	if err := b.enter("AddressBookHomeSetPath", "", false, "", ""); err != nil {
		return "", err
	}
	return b.home, nil
}

func (b *cardBackend) ListAddressBooks(ctx context.Context) ([]carddav.AddressBook, error) {
	if err := b.enter("ListAddressBooks", "", false, "", ""); err != nil {
		return nil, err
	}
	return append([]carddav.AddressBook(nil), b.books...), nil
}

func (b *cardBackend) GetAddressBook(ctx context.Context, path string) (*carddav.AddressBook, error) {
	if err := b.enter("GetAddressBook", path, false, "", ""); err != nil {
		return nil, err
	}
	for i := range b.books {
		if b.books[i].Path == path || strings.TrimSuffix(b.books[i].Path, "/") == path {
			c := b.books[i]
			return &c, nil
		}
	}
	return nil, nf("address book")
}

func (b *cardBackend) CreateAddressBook(ctx context.Context, ab *carddav.AddressBook) error {
	if err := b.enter("CreateAddressBook", ab.Path, true, "", ""); err != nil {
		return err
	}
	b.created = append(b.created, *ab)
	return nil
}

func (b *cardBackend) DeleteAddressBook(ctx context.Context, path string) error {
	if err := b.enter("DeleteAddressBook", path, true, "", ""); err != nil {
		return err
	}
	return nil
}

func (b *cardBackend) GetAddressObject(ctx context.Context, path string, req *carddav.AddressDataRequest) (*carddav.AddressObject, error) {
	if err := b.enter("GetAddressObject", path, false, "", ""); err != nil {
		return nil, err
	}
	if o := b.objs[path]; o != nil {
		c := *o
		return &c, nil
	}
	return nil, nf("address object")
}

func (b *cardBackend) sortedObjs(prefix string) []carddav.AddressObject {
	var ks []string
	for p := range b.objs {
		if strings.HasPrefix(p, prefix) {
			ks = append(ks, p)
		}
	}
	sort.Strings(ks)
	var out []carddav.AddressObject
	for _, p := range ks {
		out = append(out, *b.objs[p])
	}
	return out
}

func (b *cardBackend) ListAddressObjects(ctx context.Context, path string, req *carddav.AddressDataRequest) ([]carddav.AddressObject, error) {
	if err := b.enter("ListAddressObjects", path, false, "", ""); err != nil {
		return nil, err
	}
	return b.sortedObjs(path), nil
}

func (b *cardBackend) QueryAddressObjects(ctx context.Context, path string, q *carddav.AddressBookQuery) ([]carddav.AddressObject, error) {
	if err := b.enter("QueryAddressObjects", path, false, "", ""); err != nil {
		return nil, err
	}
	res, err := carddav.Filter(q, b.sortedObjs(path))
	if err != nil {
		b.OwnErr = err.Error()
	}
	return res, err
}

func (b *cardBackend) PutAddressObject(ctx context.Context, path string, card vcard.Card, opts *carddav.PutAddressObjectOptions) (*carddav.AddressObject, error) {
	if err := b.enter("PutAddressObject", path, true, string(opts.IfMatch), string(opts.IfNoneMatch)); err != nil {
		return nil, err
	}
	o := &carddav.AddressObject{Path: path, ModTime: time.Date(2024, 6, 2, 0, 0, 0, 0, time.UTC), ETag: "cput-tag", Card: card}
	b.objs[path] = o
	c := *o
	return &c, nil
}

func (b *cardBackend) DeleteAddressObject(ctx context.Context, path string) error {
	if err := b.enter("DeleteAddressObject", path, true, "", ""); err != nil {
		return err
	}
	if b.objs[path] == nil {
		return nf("address object")
	}
	delete(b.objs, path)
	return nil
}
