//go:build go1.25

package wdsim

import (
	"testing"
	"time"
)

// sameFailure: the candidate still shows the violation class being minimised.
func sameFailure(res *RunResult, want *Violation) *Violation {
	for i := range res.Violations {
		v := &res.Violations[i]
		if v.Prop == want.Prop && v.Clause == want.Clause {
			return v
		}
	}
	return nil
}

// Minimise shrinks a failing plan (delta debugging over steps, set-up
// operations and faults, then simplification of arguments) while the same
// (property, clause) keeps failing. Every candidate runs in a fresh bubble.
func Minimise(t *testing.T, plan *Plan, want *Violation, opts Opts, maxExec int, maxTime time.Duration) (*Plan, *RunResult, int) {
	start := time.Now()
	execs := 0
	best := plan.Clone()
	bestRes := Execute(t, best.Clone(), opts)
	execs++
	if sameFailure(bestRes, want) == nil {
		return plan, nil, execs // not reproducible: caller reports that
	}
	try := func(c *Plan) bool {
		if execs >= maxExec || time.Since(start) > maxTime {
			return false
		}
		execs++
		r := Execute(t, c.Clone(), opts)
		if r.Infra == "" && sameFailure(r, want) != nil {
			best, bestRes = c, r
			return true
		}
		return false
	}
	// concurrent plans: drop whole tasks, then single operations of each task
	if len(best.Tasks) > 0 {
		for ti := len(best.Tasks) - 1; ti >= 0 && len(best.Tasks) > 1; ti-- {
			if ti >= len(best.Tasks) {
				continue
			}
			c := best.Clone()
			c.Tasks = append(append([]TaskPlan{}, c.Tasks[:ti]...), c.Tasks[ti+1:]...)
			try(c)
		}
		for ti := range best.Tasks {
			for si := len(best.Tasks[ti].Steps) - 1; si >= 0; si-- {
				if si >= len(best.Tasks[ti].Steps) {
					continue
				}
				c := best.Clone()
				s := c.Tasks[ti].Steps
				c.Tasks[ti].Steps = append(append([]Step{}, s[:si]...), s[si+1:]...)
				try(c)
			}
			for si := len(best.Tasks[ti].Setup) - 1; si >= 0; si-- {
				if si >= len(best.Tasks[ti].Setup) {
					continue
				}
				c := best.Clone()
				s := c.Tasks[ti].Setup
				c.Tasks[ti].Setup = append(append([]SetupOp{}, s[:si]...), s[si+1:]...)
				try(c)
			}
		}
		if best.Slots > 1 {
			c := best.Clone()
			c.Slots = 1
			try(c)
		}
		return best, bestRes, execs
	}
	// upload plans: simpler arguments
	if best.Upload != nil {
		simplify := []func(u *UploadPlan) bool{
			func(u *UploadPlan) bool { ok := u.CloseDelayNS > 1; u.CloseDelayNS = 1; return ok },
			func(u *UploadPlan) bool {
				ok := u.ClosePolicy == "async"
				u.ClosePolicy = "before-return"
				u.CloseDelayNS = 0
				return ok
			},
			func(u *UploadPlan) bool { ok := u.ReadLatencyNS > 0; u.ReadLatencyNS = 0; return ok },
			func(u *UploadPlan) bool { ok := u.AnswerDelayNS > 1; u.AnswerDelayNS = 1; return ok },
			func(u *UploadPlan) bool { ok := u.DAVError; u.DAVError = false; return ok },
			func(u *UploadPlan) bool {
				ok := false
				for i := range u.PausesNS {
					ok = ok || u.PausesNS[i] > 0
					u.PausesNS[i] = 0
				}
				return ok
			},
			func(u *UploadPlan) bool {
				ok := u.Size > 8
				if ok {
					u.Size = 8
					u.Writes = []int{8}
					u.PausesNS = []int64{0, 0}
					if u.ReadBytes > 4 {
						u.ReadBytes = 4
					}
				}
				return ok
			},
			func(u *UploadPlan) bool {
				ok := len(u.Writes) > 1
				u.Writes = []int{u.Size}
				u.PausesNS = []int64{0, 0}
				return ok
			},
			func(u *UploadPlan) bool { ok := u.CancelAtNS > 0; u.CancelAtNS = -1; return ok && u.Action != "stall" },
		}
		for _, f := range simplify {
			c := best.Clone()
			if f(c.Upload) {
				try(c)
			}
		}
		return best, bestRes, execs
	}
	// 1. cut everything after the failing step
	if v := sameFailure(bestRes, want); v != nil && v.Step+1 < len(best.Steps) {
		c := best.Clone()
		c.Steps = c.Steps[:v.Step+1]
		try(c)
	}
	// 2. ddmin over steps
	for n := 2; len(best.Steps) > 1; {
		size := (len(best.Steps) + n - 1) / n
		reduced := false
		for lo := 0; lo < len(best.Steps); lo += size {
			hi := lo + size
			if hi > len(best.Steps) {
				hi = len(best.Steps)
			}
			c := best.Clone()
			c.Steps = append(append([]Step{}, c.Steps[:lo]...), c.Steps[hi:]...)
			if len(c.Steps) == 0 {
				continue
			}
			if try(c) {
				reduced = true
				break
			}
		}
		if reduced {
			if n > 2 {
				n--
			}
			continue
		}
		if size <= 1 {
			break
		}
		n *= 2
		if n > len(best.Steps) {
			n = len(best.Steps)
		}
		if execs >= maxExec || time.Since(start) > maxTime {
			break
		}
	}
	spent := func() bool { return execs >= maxExec || time.Since(start) > maxTime }
	// 3a. large set-ups (wide collections, deep chains): whole blocks first
	for size := len(best.Setup) / 2; size >= 8 && !spent(); size /= 2 {
		for i := len(best.Setup) - size; i >= 0 && !spent(); i -= size {
			if i+size > len(best.Setup) {
				continue
			}
			c := best.Clone()
			c.Setup = append(append([]SetupOp{}, c.Setup[:i]...), c.Setup[i+size:]...)
			try(c)
		}
	}
	// 3. set-up operations, one at a time (later ones first: children before parents)
	for i := len(best.Setup) - 1; i >= 0; i-- {
		if spent() {
			break
		}
		if i >= len(best.Setup) {
			continue
		}
		c := best.Clone()
		c.Setup = append(append([]SetupOp{}, c.Setup[:i]...), c.Setup[i+1:]...)
		try(c)
	}
	// 4. faults, one at a time
	for si := range best.Steps {
		for fi := len(best.Steps[si].Faults) - 1; fi >= 0; fi-- {
			if fi >= len(best.Steps[si].Faults) {
				continue
			}
			c := best.Clone()
			f := c.Steps[si].Faults
			c.Steps[si].Faults = append(append([]Fault{}, f[:fi]...), f[fi+1:]...)
			try(c)
		}
	}
	// 4b. requests served during a stalled upload, one at a time (but never the
	// last one: without any the step would be an ordinary request), and the gate
	for si := range best.Steps {
		for di := len(best.Steps[si].During) - 1; di >= 0; di-- {
			if di >= len(best.Steps[si].During) || len(best.Steps[si].During) <= 1 {
				continue
			}
			c := best.Clone()
			d := c.Steps[si].During
			c.Steps[si].During = append(append([]Step{}, d[:di]...), d[di+1:]...)
			try(c)
		}
		for di := range best.Steps[si].During {
			if len(best.Steps[si].During[di].Body) > 4 {
				c := best.Clone()
				c.Steps[si].During[di].Body = c.Steps[si].During[di].Body[:3]
				try(c)
			}
			for hi := len(best.Steps[si].During[di].Headers) - 1; hi >= 0; hi-- {
				if hi >= len(best.Steps[si].During[di].Headers) {
					continue
				}
				c := best.Clone()
				h := c.Steps[si].During[di].Headers
				c.Steps[si].During[di].Headers = append(append([][2]string{}, h[:hi]...), h[hi+1:]...)
				try(c)
			}
		}
		if len(best.Steps[si].During) > 0 && best.Steps[si].Gate > 0 {
			c := best.Clone()
			c.Steps[si].Gate = 0
			try(c)
		}
	}
	// 5. simplify arguments
	for si := range best.Steps {
		if best.Steps[si].DelayNS > 1000 {
			c := best.Clone()
			c.Steps[si].DelayNS = 1000
			try(c)
		}
		if best.Steps[si].Chunk != 0 {
			c := best.Clone()
			c.Steps[si].Chunk = 0
			try(c)
		}
		for hi := len(best.Steps[si].Headers) - 1; hi >= 0; hi-- {
			if hi >= len(best.Steps[si].Headers) {
				continue
			}
			c := best.Clone()
			h := c.Steps[si].Headers
			c.Steps[si].Headers = append(append([][2]string{}, h[:hi]...), h[hi+1:]...)
			try(c)
		}
		if len(best.Steps[si].Body) > 8 && best.Steps[si].Method == "PUT" {
			c := best.Clone()
			c.Steps[si].Body = c.Steps[si].Body[:4]
			if c.Steps[si].Gate > 2 {
				c.Steps[si].Gate = 2
			}
			for fi := range c.Steps[si].Faults {
				if c.Steps[si].Faults[fi].Seam == "req-body" && c.Steps[si].Faults[fi].At > 2 {
					c.Steps[si].Faults[fi].At = 2
				}
			}
			try(c)
		}
	}
	for i := range best.Setup {
		if execs >= maxExec || time.Since(start) > maxTime {
			break
		}
		if len(best.Setup[i].Data) > 4 {
			c := best.Clone()
			c.Setup[i].Data = c.Setup[i].Data[:3]
			try(c)
		}
	}
	return best, bestRes, execs
}
