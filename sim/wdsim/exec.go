//go:build go1.25

package wdsim

import (
	"bufio"
	"bytes"
	"context"
	"errors"
	"fmt"
	"io"
	"net/http"
	"net/http/httptest"
	realos "os"
	realfp "path/filepath"
	"runtime/debug"
	"sort"
	"strings"
	"testing"
	"time"

	webdav "github.com/emersion/go-webdav"
	"github.com/emersion/go-webdav/vsim/model"
	"github.com/emersion/go-webdav/vsim/rt"
	"github.com/emersion/go-webdav/vsim/simos"
)

// Stats are the measured counters of one run (merged over a batch by the
// worker). Everything is counted when it happens, never when it is planned.
type Stats struct {
	Runs        int            `json:"runs"`
	Steps       int            `json:"steps"`
	Skipped     int            `json:"skipped_by_net_http"`
	FakeNS      int64          `json:"fake_ns"`
	SeamCalls   int            `json:"seam_calls"`
	ByMethod    map[string]int `json:"by_method"`
	ByStatus    map[string]int `json:"by_status"`
	FaultsFired map[string]int `json:"faults_fired"`
	FaultsPlan  map[string]int `json:"faults_planned"`
	Probes      map[string]int `json:"probes"`
	Foreign     map[string]int `json:"foreign_findings"`
	Classes     map[string]int `json:"-"` // distinct (request class) -> count
	NonTrivial  map[string]int `json:"-"` // distinct non-trivial cases
	Shapes      map[string]int `json:"-"` // distinct abstract tree shapes
	Aborted     int            `json:"aborted_runs"`
	Deadlocks   int            `json:"deadlocks"`
	Panics      int            `json:"panics"`
}

func NewStats() *Stats {
	return &Stats{ByMethod: map[string]int{}, ByStatus: map[string]int{}, FaultsFired: map[string]int{},
		FaultsPlan: map[string]int{}, Probes: map[string]int{}, Foreign: map[string]int{},
		Classes: map[string]int{}, NonTrivial: map[string]int{}, Shapes: map[string]int{}}
}

const maxDistinct = 250000 // per worker: beyond this a distinct-counter is saturated, not grown

// NT counts one non-trivial case under a key. Long keys are hashed; the set
// stops growing at maxDistinct (the evidence then reports a lower bound).
func (s *Stats) NT(key string) {
	if len(key) > 96 {
		i := strings.IndexByte(key, '|')
		key = fmt.Sprintf("%s|#%016x", key[:max(i, 0)], rt.MixS(0, key))
	}
	if _, ok := s.NonTrivial[key]; !ok && len(s.NonTrivial) >= maxDistinct {
		s.Probes["distinct-counter-saturated"]++
		return
	}
	s.NonTrivial[key]++
}

func (s *Stats) shape(key string) {
	k := fmt.Sprintf("%016x", rt.MixS(0, key))
	if _, ok := s.Shapes[k]; !ok && len(s.Shapes) >= maxDistinct {
		return
	}
	s.Shapes[k]++
}

func addMap(dst, src map[string]int) {
	for k, v := range src {
		dst[k] += v
	}
}

func (s *Stats) Merge(o *Stats) {
	s.Runs += o.Runs
	s.Steps += o.Steps
	s.Skipped += o.Skipped
	s.FakeNS += o.FakeNS
	s.SeamCalls += o.SeamCalls
	s.Aborted += o.Aborted
	s.Deadlocks += o.Deadlocks
	s.Panics += o.Panics
	addMap(s.ByMethod, o.ByMethod)
	addMap(s.ByStatus, o.ByStatus)
	addMap(s.FaultsFired, o.FaultsFired)
	addMap(s.FaultsPlan, o.FaultsPlan)
	addMap(s.Probes, o.Probes)
	addMap(s.Foreign, o.Foreign)
	addMap(s.Classes, o.Classes)
	addMap(s.NonTrivial, o.NonTrivial)
	addMap(s.Shapes, o.Shapes)
}

// RunResult is what one execution of a plan produced.
type RunResult struct {
	Violations []Violation // findings against the property under check
	Log        *Log
	Stats      *Stats
	Bubble     rt.BubbleResult
	Infra      string // non-empty: the harness itself had trouble (exit 2 material)
	Stuck      bool   // the run never finished in real time: its goroutines are still around, no further run in this process
}

// Opts selects what is judged.
type Opts struct {
	Own      string // property under check: only its findings become violations
	Base     string // directory for sandboxes (tmpfs)
	KeepLog  bool
	StopFast bool // stop at the first own violation (always true in practice)
}

// Exchange is one request as the handler saw it and what it answered.
type Exchange struct {
	Req          model.Request
	Resp         model.Response
	Skipped      string
	Panic        string
	BodyFailed   bool // the body stream returned its injected error
	BodyCut      bool // the body stream ended early with a clean EOF
	BodyFault    *Fault
	Delivered    int
	SilentCancel bool   // the request context was cancelled while the body stream stayed healthy
	CtxCancelled string // "before" | "at-call": the request context was cancelled although no stream broke
	RespCut      bool   // the client went away while the answer was being written: Write failed after RespCutAt bytes
	RespCutAt    int
}

// cutWriter is a ResponseWriter whose connection breaks after a number of body
// bytes: that Write is short and fails, every later one fails.
type cutWriter struct {
	http.ResponseWriter
	left  int
	at    int
	fired bool
}

var errClientGone = errors.New("write tcp 192.0.2.1:1234: broken pipe (vsim: the client went away)")

func (c *cutWriter) Write(p []byte) (int, error) {
	if c.fired {
		return 0, errClientGone
	}
	if len(p) <= c.left {
		c.left -= len(p)
		return c.ResponseWriter.Write(p)
	}
	n, _ := c.ResponseWriter.Write(p[:c.left])
	c.left, c.fired = 0, true
	return n, errClientGone
}

func (c *cutWriter) Flush() {
	if f, ok := c.ResponseWriter.(http.Flusher); ok && !c.fired {
		f.Flush()
	}
}

type executor struct {
	plan  *Plan
	opts  Opts
	w     *World
	seam  *DiskSeam
	h     http.Handler
	fs    webdav.FileSystem
	judge *model.Judge
	log   *Log
	res   *RunResult
	snap  map[string]model.Entry
	leaks []string // strings that must never appear in a response
	stop  bool
	api   *apiState
	tags  map[string][]string // path -> entity tags announced for it (wire form), oldest first
	last  *Exchange

	curTag   string // entity tag (wire form) of the target just before a conditional request, "" = none
	curKnown bool

	neighbour     http.Handler // a second file server of the same process with another root
	neighbourRoot string

	gate *gatedBody // set while an overlapping upload is being started (overlap.go)

	bk     *bkCore // recording backend of a dav server (nil for the plain file server)
	calBk  *calBackend
	cardBk *cardBackend
}

// Execute runs a plan inside one synctest bubble.
func Execute(t *testing.T, plan *Plan, opts Opts) *RunResult {
	if len(plan.Tasks) > 0 {
		return ExecuteConc(t, plan, opts)
	}
	if plan.Upload != nil {
		return ExecuteUpload(t, plan, opts)
	}
	res := &RunResult{Log: &Log{}, Stats: NewStats()}
	res.Stats.Runs = 1
	ex := &executor{plan: plan, opts: opts, log: res.Log, res: res}
	res.Bubble = rt.Bubble(t, func() {
		defer func() {
			simos.Hook = nil
			if ex.w != nil {
				ex.w.Close()
			}
		}()
		ex.run()
	})
	if !res.Bubble.Stuck {
		simos.Hook = nil
		if ex.w != nil {
			ex.w.Close()
		}
	}
	if res.Bubble.Stuck {
		res.Stuck = true
		res.Stats.Deadlocks++
		lib := rt.LibraryGoroutines(res.Bubble.Stacks)
		if len(lib) == 0 {
			res.Infra = "the run made no progress for " + rt.StuckAfter.String() + " and no goroutine is inside the library:\n" + firstLines(res.Bubble.Stacks, 80)
			return res
		}
		prop, clause := "C13", "no-response"
		if plan.Property == "C14" {
			prop, clause = "C14", "hang"
		}
		ex.finding(Violation{Prop: prop, Clause: clause, Class: "stuck", Msg: "the run made no progress for " + rt.StuckAfter.String() + " of real time; goroutines inside the library:\n" + firstLines(strings.Join(lib, "\n\n"), 60), Step: res.Stats.Steps})
		return res
	}
	if res.Bubble.Deadlock || res.Bubble.Leftover {
		res.Stats.Deadlocks++
		prop, clause, what := "C13", "no-response", "a request never returned"
		if plan.Property == "C14" {
			prop, clause, what = "C14", "hang", "a client call never returned"
		}
		lib := strings.Join(rt.LibraryGoroutines(res.Bubble.Stacks), "\n\n")
		ex.finding(Violation{Prop: prop, Clause: clause, Class: "bubble-deadlock", Msg: what + " (all goroutines of the bubble are blocked):\n" + firstLines(lib, 60), Step: res.Stats.Steps})
	}
	if res.Bubble.Panic != nil {
		res.Infra = "panic in the harness: " + res.Bubble.PanicText
	}
	return res
}

func firstLines(s string, n int) string {
	l := strings.SplitN(s, "\n", n+1)
	if len(l) > n {
		l = l[:n]
	}
	return strings.Join(l, "\n")
}

// finding routes a finding: own property -> violation, else counted.
func (ex *executor) finding(v Violation) {
	if ex.opts.Own == "C05" && v.Prop == "C01" && ex.plan.Profile == "api-clients" {
		// C05: "tree effects as in C01" - what the client's requests did to the
		// store is judged by the same model
		v.Prop, v.Clause = "C05", "effect:"+v.Clause
	}
	if ex.opts.Own == "" || v.Prop == ex.opts.Own {
		ex.res.Violations = append(ex.res.Violations, v)
		ex.log.Addf("VIOLATION %s", firstLines(v.String(), 1))
		ex.stop = true
		return
	}
	ex.res.Stats.Foreign[v.Prop+"/"+v.Clause]++
}

func (ex *executor) probe(name string) { ex.res.Stats.Probes[name]++ }

func (ex *executor) run() {
	p := ex.plan
	w, err := NewWorld(ex.opts.Base, p.Config.RootName)
	if err != nil {
		ex.res.Infra = "cannot create sandbox: " + err.Error()
		return
	}
	ex.w = w
	ex.log.sb = w.Sandbox
	ex.seam = &DiskSeam{Sandbox: w.Sandbox, Root: w.Root, Log: ex.log, Stamp: true}
	ex.leaks = []string{w.Root, w.Sandbox}
	if r, err := realfp.EvalSymlinks(w.Root); err == nil && r != w.Root {
		ex.leaks = append(ex.leaks, r)
	}
	ex.log.Addf("run seed=%#x property=%s profile=%s store=%s", p.RunSeed, p.Property, p.Profile, p.Config.Store)

	planHost = "dav.test"
	if p.Config.Host != "" {
		planHost = p.Config.Host
	}
	// the server process's local zone is part of the configuration space
	time.Local = time.UTC
	if p.Config.ZoneOffsetS != 0 {
		time.Local = time.FixedZone("vsim", p.Config.ZoneOffsetS)
	}
	defer func() { time.Local = time.UTC }()
	if p.Config.Neighbour && (p.Config.Store == "" || p.Config.Store == "localfs") {
		// another tenant of the same process: its own root, the same names
		other := realfp.Join(w.Sandbox, "neighbour-root")
		realos.MkdirAll(realfp.Join(other, "a"), 0o755)
		realos.WriteFile(realfp.Join(other, "a", "b"), []byte("the neighbour's"), 0o644)
		ex.neighbourRoot = other
		ex.neighbour = &webdav.Handler{FileSystem: webdav.LocalFileSystem(other)}
		w.outside = OutsideListing(w.Sandbox, w.Root)
	}
	switch p.Config.Store {
	case "", "localfs":
		root := spellRoot(w.Root, p.Config.RootForm)
		if p.Config.RootForm == "missing-parent" {
			// a typo in the configuration, a volume that is not mounted: neither
			// the served directory nor its parent exists (and nothing is set up)
			root = realfp.Join(w.Sandbox, "no-such-parent", "served")
			w.Root, ex.seam.Root = root, root
			ex.leaks = append(ex.leaks, root)
			w.outside = OutsideListing(w.Sandbox, root)
			p.Setup = nil
		}
		if strings.HasPrefix(p.Config.RootForm, "rel-") {
			// configured relative to the working directory of the server process
			// (`webdav-server .`): the process changes into the sandbox for the run
			if old, err := realos.Getwd(); err == nil {
				dir := w.Sandbox
				switch p.Config.RootForm {
				case "rel-dot":
					dir, root = w.Root, "."
				case "rel-name":
					root = realfp.Base(w.Root)
				case "rel-dotslash":
					root = "./" + realfp.Base(w.Root) + "/"
				}
				if err := realos.Chdir(dir); err != nil {
					ex.res.Infra = "cannot change into the sandbox: " + err.Error()
					return
				}
				defer realos.Chdir(old)
			}
		}
		ex.fs = webdav.LocalFileSystem(root)
	case "memfs":
		ex.fs = ex.newMemFS()
	}
	ex.h = &webdav.Handler{FileSystem: ex.fs}
	if p.Config.Server != "" {
		ex.davServer()
	}
	if p.Config.Judge {
		ex.judge = model.NewJudge()
	}

	// initial tree, written straight to the store
	for _, op := range p.Setup {
		time.Sleep(time.Millisecond)
		ex.applySetup(op)
	}
	simos.Hook = ex.seam
	ex.snap = ex.snapshot()
	if ex.judge != nil {
		if d := ex.judge.T.Diff(ex.snap); d != "" {
			ex.res.Infra = "setup: store and model differ: " + d
			return
		}
	}

	start := time.Now()
	for i := range p.Steps {
		if ex.stop {
			break
		}
		st := &p.Steps[i]
		if st.DelayNS > 0 {
			time.Sleep(time.Duration(st.DelayNS))
		}
		ex.res.Stats.Steps++
		if st.Kind == "reconfigure" {
			ex.reconfigure(i)
		} else if len(st.During) > 0 {
			ex.overlapStep(i, st)
		} else if st.Call != nil {
			ex.callStep(i, st)
		} else if st.API != nil {
			ex.apiStep(i, st)
		} else {
			ex.rawStep(i, st)
		}
	}
	ex.res.Stats.FakeNS += int64(time.Since(start))
	if msg, changed := w.OutsideChanged(); changed {
		ex.finding(Violation{Prop: "C03", Clause: "canary-changed", Class: "end-of-run", Msg: msg, Step: len(p.Steps)})
	}
}

// reconfigure points the long-lived Handler at another directory between two
// requests (its exported FileSystem field is assigned, as an operator's reload
// would): from then on THAT is the served directory, the former one is outside.
func (ex *executor) reconfigure(idx int) {
	h, ok := ex.h.(*webdav.Handler)
	if ok && ex.plan.Config.Store == "memfs" && ex.mem() != nil {
		// another backend with the same names and other contents, tags, times
		// and types (a replica, a restored snapshot): from now on every call is
		// answered from THAT one and reaches THAT one
		old := ex.mem()
		m := NewMemFS(ex.plan.Config.MemfsSeed ^ 0x9e3779b97f4a7c15 ^ uint64(idx))
		m.UniqueTags, m.Conditional, m.tagSeq = old.UniqueTags, old.Conditional, old.tagSeq+1000
		var names []string
		for p := range old.nodes {
			names = append(names, p)
		}
		sort.Strings(names)
		for _, p := range names {
			n := old.nodes[p]
			if n.info.IsDir {
				m.nodes[p] = &memNode{info: webdav.FileInfo{Path: p, IsDir: true, ModTime: exoticTime(m.rng)}}
				continue
			}
			d := append([]byte("second backend: "), n.data...)
			m.nodes[p] = &memNode{data: d, info: m.meta(p, d)}
		}
		m.nodes["/"] = &memNode{info: webdav.FileInfo{Path: "/", IsDir: true}}
		h.FileSystem = m
		ex.fs = m
		ex.snap = ex.snapshot()
		ex.tags = nil
		ex.log.Addf("step %d the handler is reconfigured to use another backend (%d resources)", idx, len(names))
		ex.probe("handler-reconfigured")
		return
	}
	if !ok || ex.plan.Config.Store == "memfs" || strings.HasPrefix(ex.plan.Config.RootForm, "rel-") {
		return
	}
	other := realfp.Join(ex.w.Sandbox, fmt.Sprintf("second-root-%d", idx))
	realos.MkdirAll(realfp.Join(other, "a"), 0o755)
	realos.WriteFile(realfp.Join(other, "a", "b"), []byte("in the second root"), 0o644)
	realos.WriteFile(realfp.Join(other, "c"), []byte("c of the second root"), 0o644)
	for _, p := range []string{realfp.Join(other, "a", "b"), realfp.Join(other, "a"), realfp.Join(other, "c"), other} {
		realos.Chtimes(p, time.Now(), time.Now()) // the fake clock: tags must not depend on the host's
	}
	h.FileSystem = webdav.LocalFileSystem(other)
	ex.fs = h.FileSystem
	ex.w.Root = other
	ex.seam.Root = other
	ex.leaks = append(ex.leaks, other)
	ex.w.outside = OutsideListing(ex.w.Sandbox, other)
	ex.snap = ex.snapshot()
	ex.tags = nil
	ex.log.Addf("step %d the handler is reconfigured to serve $SB/%s", idx, realfp.Base(other))
	ex.probe("handler-reconfigured")
}

// spellRoot writes the served directory the way an operator might configure
// it: clean, with a trailing slash, with a dot segment or a doubled slash.
func spellRoot(root, form string) string {
	switch form {
	case "slash":
		return root + "/"
	case "dot":
		return realfp.Dir(root) + "/./" + realfp.Base(root)
	case "double":
		return realfp.Dir(root) + "//" + realfp.Base(root) + "/"
	}
	return root
}

func (ex *executor) applySetup(op SetupOp) {
	now := time.Now()
	switch op.MTime {
	case "epoch":
		now = time.Unix(0, 0)
	case "ancient":
		now = time.Date(1901, 12, 13, 20, 45, 53, 0, time.UTC)
	case "future":
		now = time.Date(2261, 1, 1, 0, 0, 0, 0, time.UTC)
	case "odd-ns":
		now = time.Date(1999, 12, 31, 23, 59, 59, 999999999, time.UTC)
	}
	switch {
	case op.Mkcol != "":
		if ex.plan.Config.Store == "memfs" {
			ex.memSetup(op)
		} else {
			full := realfp.Join(ex.w.Root, realfp.FromSlash(op.Mkcol))
			realos.MkdirAll(full, 0o755)
			realos.Chtimes(full, now, now)
		}
		if ex.judge != nil {
			ex.judge.T.Mkcol(op.Mkcol)
		}
	case op.Put != "":
		if ex.plan.Config.Store == "memfs" {
			ex.memSetup(op)
		} else {
			full := realfp.Join(ex.w.Root, realfp.FromSlash(op.Put))
			realos.WriteFile(full, op.Data, 0o644)
			realos.Chtimes(full, now, now)
		}
		if ex.judge != nil {
			ex.judge.T.PutFile(op.Put, op.Data)
		}
	}
}

func (ex *executor) snapshot() map[string]model.Entry {
	if ex.plan.Config.Store == "memfs" {
		return ex.memSnapshot()
	}
	return Snapshot(ex.w.Root)
}

// validFieldValue mirrors what net/http's server accepts in a header value.
func validFieldValue(v string) bool {
	for i := 0; i < len(v); i++ {
		c := v[i]
		if (c < 0x20 && c != '\t') || c == 0x7f {
			return false
		}
	}
	return true
}

// buildRequest turns a raw step into the *http.Request net/http's server would
// hand to the handler, by parsing the same bytes the server would read.
// planHost is the Host header raw requests carry (set per run from the plan).
var planHost = "dav.test"

func buildRequest(st *Step) (*http.Request, string) {
	var b bytes.Buffer
	fmt.Fprintf(&b, "%s %s HTTP/1.1\r\nHost: %s\r\n", st.Method, st.Target, planHost)
	for _, h := range st.Headers {
		if !validFieldValue(h[1]) {
			return nil, "invalid header value"
		}
		fmt.Fprintf(&b, "%s: %s\r\n", h[0], h[1])
	}
	if st.Chunked && (len(st.Body) > 0 || st.Kind == "empty-chunked") {
		// (an EMPTY body can be framed chunked too: "0\r\n\r\n" - the request then
		// has no announced length at all)
		b.WriteString("Transfer-Encoding: chunked\r\n")
	} else if len(st.Body) > 0 || st.Method == "PUT" || st.Method == "POST" || st.Method == "PROPPATCH" {
		fmt.Fprintf(&b, "Content-Length: %d\r\n", len(st.Body))
	}
	b.WriteString("\r\n")
	req, err := http.ReadRequest(bufio.NewReader(&b))
	if err != nil {
		return nil, err.Error()
	}
	if req.Method == "CONNECT" || req.Method == "PRI" {
		return nil, "method handled by net/http itself"
	}
	req.RemoteAddr = "192.0.2.1:1234"
	return req, ""
}

func headerMap(req *http.Request) map[string]string {
	m := map[string]string{}
	for k, v := range req.Header {
		if len(v) > 0 {
			m[k] = v[len(v)-1]
		}
	}
	return m
}

// serve delivers one request to the handler the way net/http would and
// records the answer.
func (ex *executor) serve(idx int, st *Step) *Exchange {
	xc := &Exchange{}
	req, why := buildRequest(st)
	if req == nil {
		xc.Skipped = why
		return xc
	}
	ctx, cancel := context.WithCancel(context.Background())
	defer cancel()
	ctxCancelled := ""
	for i := range st.Faults {
		if st.Faults[i].Seam == "ctx" {
			switch st.Faults[i].Kind {
			case "before":
				cancel() // the client was gone before the handler even started
				ctxCancelled = "before"
			case "at-call":
				ex.seam.Cancel = cancel
			}
		}
	}
	var bf *Fault
	for i := range st.Faults {
		if st.Faults[i].Seam == "req-body" {
			bf = &st.Faults[i]
		}
	}
	body := &FaultBody{Data: st.Body, Chunk: st.Chunk, Fault: bf, Cancel: cancel}
	if st.Chunk < 0 {
		body.Rng = rt.NewRand(rt.Mix(ex.plan.RunSeed, uint64(idx), 0xb0d1))
	}
	// bodies of announced length end the way net/http ends them in most runs
	body.EOFWithLast = !st.Chunked && rt.Mix(ex.plan.RunSeed, 0xe0f)%4 != 0
	if g := ex.gate; g != nil {
		g.FaultBody = body
		req.Body = g
	} else if len(st.Body) == 0 && bf == nil && st.Kind != "empty-chunked" {
		req.Body = http.NoBody
	} else {
		req.Body = body
	}
	req = req.WithContext(ctx)

	xc.Req = model.Request{Method: req.Method, Path: req.URL.Path, Host: req.Host, H: headerMap(req), Body: st.Body}
	rec := httptest.NewRecorder()
	var w http.ResponseWriter = rec
	var cw *cutWriter
	for i := range st.Faults {
		if st.Faults[i].Seam == "resp-write" {
			cw = &cutWriter{ResponseWriter: rec, left: st.Faults[i].At, at: st.Faults[i].At}
			w = cw
		}
	}
	func() {
		defer func() {
			if r := recover(); r != nil {
				if r == http.ErrAbortHandler {
					xc.Panic = "ErrAbortHandler"
				} else {
					xc.Panic = fmt.Sprintf("%v\n%s", r, debug.Stack())
				}
			}
		}()
		ex.h.ServeHTTP(w, req)
	}()
	if cw != nil && cw.fired {
		xc.RespCut, xc.RespCutAt = true, cw.at
		if xc.Panic == "ErrAbortHandler" {
			xc.Panic = "" // the documented way to give up on a connection that is gone
		}
	}
	res := rec.Result()
	rb, _ := io.ReadAll(res.Body)
	if req.Method == "HEAD" {
		rb = nil
	}
	xc.Resp = model.Response{Status: res.StatusCode, H: res.Header, Body: rb}
	xc.BodyFailed = body.Failed
	xc.BodyCut = body.CutClean
	xc.BodyFault = bf
	xc.Delivered = body.Delivered()
	xc.SilentCancel = body.SilentCancel()
	if ex.seam.Cancelled {
		ctxCancelled = "at-call"
	}
	xc.CtxCancelled = ctxCancelled
	xc.Req.MayFail = ctxCancelled != ""
	xc.Req.BodyBroken = body.Failed
	if body.CutClean {
		// the server saw a shorter, clean stream: that is what was "sent"
		xc.Req.Body = st.Body[:body.Delivered()]
	}
	return xc
}

func statusClass(c int) string { return fmt.Sprintf("%dxx", c/100) }

func (ex *executor) rawStep(idx int, st *Step) {
	st = ex.resolve(idx, st)
	if ex.stop {
		return
	}
	if ex.neighbour != nil && !st.Probe {
		// the neighbour is asked for the same name just before (read-only)
		if req, _ := buildRequest(&Step{Method: "PROPFIND", Target: st.Target, Headers: [][2]string{{"Depth", "0"}}}); req != nil {
			saveRoot := ex.seam.Root
			ex.seam.Root = ex.neighbourRoot
			ex.seam.BeginStep(nil)
			func() {
				defer func() { recover() }()
				req.Body = http.NoBody
				ex.neighbour.ServeHTTP(httptest.NewRecorder(), req)
			}()
			if len(ex.seam.Outside) > 0 {
				ex.finding(Violation{Prop: "C03", Clause: "outside-access", Class: "neighbour PROPFIND", Msg: fmt.Sprintf("the neighbouring file server left ITS root: %s", strings.ReplaceAll(strings.Join(ex.seam.Outside, ", "), ex.w.Sandbox, "$SB")), Step: idx})
			}
			ex.seam.Root = saveRoot
		}
	}
	ex.seam.BeginStep(st.Faults)
	if ex.bk != nil {
		ex.bk.begin(st.Faults)
	}
	for _, f := range st.Faults {
		ex.res.Stats.FaultsPlan[f.Seam+":"+f.Kind]++
	}
	ex.log.Addf("step %d client=%d %s %q %v body=%dB faults=%d", idx, st.Client, st.Method, st.Target, st.Headers, len(st.Body), len(st.Faults))
	xc := ex.serve(idx, st)
	if xc.Skipped != "" {
		ex.res.Stats.Skipped++
		ex.log.Addf("  not delivered: %s", xc.Skipped)
		return
	}
	ex.res.Stats.ByMethod[st.Method]++
	ex.res.Stats.ByStatus[statusClass(xc.Resp.Status)]++
	ex.res.Stats.SeamCalls += len(ex.seam.Calls)
	for _, f := range ex.seam.Fired {
		ex.res.Stats.FaultsFired["disk:"+f.Kind]++
	}
	if xc.BodyFailed || xc.BodyCut || xc.SilentCancel {
		ex.res.Stats.FaultsFired["req-body:"+xc.BodyFault.Kind]++
	}
	if xc.CtxCancelled != "" {
		ex.res.Stats.FaultsFired["ctx:"+xc.CtxCancelled]++
	}
	if xc.RespCut {
		ex.res.Stats.FaultsFired["resp-write:broken-pipe"]++
		ex.log.Addf("  -> %d, the client went away after %d body bytes", xc.Resp.Status, xc.RespCutAt)
	} else {
		ex.log.Addf("  -> %d %v body=%q", xc.Resp.Status, sortedHeader(xc.Resp.H), clipS(canonBody(&xc.Resp), 300))
	}
	ex.last = xc
	ex.noteTag(xc)
	if srv := ex.plan.Config.Server; srv != "" {
		if srv == "webdav-local" || srv == "webdav-mem" {
			ex.judgeExchange(idx, st, xc)
		} else {
			ex.res.Stats.Classes[srv+" "+st.Method+" "+st.Kind]++
			if xc.Panic != "" {
				ex.res.Stats.Panics++
				ex.finding(Violation{Prop: "C13", Clause: "panic", Class: srv + " " + st.Method + " " + st.Kind, Msg: "handler panicked: " + xc.Panic, Step: idx})
			}
		}
		ex.judgeDav(idx, st, xc)
		return
	}
	ex.judgeExchange(idx, st, xc)
}

// noteTag remembers entity tags the server announces in headers.
func (ex *executor) noteTag(xc *Exchange) {
	if xc.Resp.Status/100 != 2 {
		return
	}
	switch xc.Req.Method {
	case "GET", "HEAD", "PUT":
	default:
		return
	}
	et := xc.Resp.H.Get("Etag")
	np := model.Normalise(xc.Req.Path)
	if et == "" || !np.OK {
		return
	}
	if ex.tags == nil {
		ex.tags = map[string][]string{}
	}
	if h := ex.tags[np.Path]; len(h) == 0 || h[len(h)-1] != et {
		ex.tags[np.Path] = append(h, et)
	}
}

// canonicalTarget spells a resource path as a plain request-target.
func canonicalTarget(p string) string {
	if p == "/" {
		return "/"
	}
	var b strings.Builder
	for _, s := range strings.Split(strings.TrimPrefix(p, "/"), "/") {
		b.WriteByte('/')
		for i := 0; i < len(s); i++ {
			c := s[i]
			if strings.IndexByte(unreserved, c) >= 0 {
				b.WriteByte(c)
			} else {
				fmt.Fprintf(&b, "%%%02X", c)
			}
		}
	}
	return b.String()
}

// probeTag asks the server (HEAD) for the current entity tag of a stored file.
// The probe is an ordinary request: every oracle judges it too.
func (ex *executor) probeTag(idx int, p string) string {
	e, ok := ex.snap[p]
	if !ok || e.Dir {
		return ""
	}
	pr := &Step{Client: -1, Method: "HEAD", Target: canonicalTarget(p), Probe: true}
	ex.probe("tag-probe")
	ex.rawStep(idx, pr)
	if ex.last != nil && ex.last.Resp.Status == 200 {
		return ex.last.Resp.H.Get("Etag")
	}
	return ""
}

// resolve replaces the placeholders a plan may carry because their values
// only exist at run time: ${tag:current|stale|other} in conditional headers
// and ${abs:<name>} (absolute host path of something in the sandbox).
func (ex *executor) resolve(idx int, st *Step) *Step {
	need := strings.Contains(st.Target, "${")
	cond := false
	for _, h := range st.Headers {
		if strings.Contains(h[1], "${") {
			need = true
		}
		if (st.Method == "PUT" || st.Method == "DELETE") && (strings.EqualFold(h[0], "If-Match") || strings.EqualFold(h[0], "If-None-Match")) {
			cond = true
		}
	}
	ex.curTag, ex.curKnown = "", false
	if cond && !st.Probe {
		if req, _ := buildRequest(&Step{Method: st.Method, Target: st.Target}); req != nil {
			if np := model.Normalise(req.URL.Path); np.OK {
				ex.curTag = ex.probeTag(idx, np.Path)
				ex.curKnown = true
				if ex.stop {
					return st
				}
			}
		}
	}
	if !need {
		return st
	}
	c := *st
	c.Headers = append([][2]string{}, st.Headers...)
	abs := func(s string) string {
		for {
			i := strings.Index(s, "${abs:")
			if i < 0 {
				return s
			}
			j := strings.Index(s[i:], "}")
			if j < 0 {
				return s
			}
			name := s[i+6 : i+j]
			s = s[:i] + strings.TrimPrefix(realfp.Join(ex.w.Sandbox, name), "/") + s[i+j+1:]
		}
	}
	c.Target = abs(c.Target)
	var target string
	if req, _ := buildRequest(&Step{Method: c.Method, Target: c.Target}); req != nil {
		if np := model.Normalise(req.URL.Path); np.OK {
			target = np.Path
		}
	}
	for i, h := range c.Headers {
		v := abs(h[1])
		if strings.Contains(v, "${tagin:current}") {
			// the text of the current tag without its quotes, to build OTHER
			// well-formed tags that resemble it
			in := "vsim-unknown-fallback"
			if len(ex.curTag) >= 2 && strings.HasPrefix(ex.curTag, "\"") && strings.HasSuffix(ex.curTag, "\"") {
				in = ex.curTag[1 : len(ex.curTag)-1]
			}
			v = strings.ReplaceAll(v, "${tagin:current}", in)
		}
		if i := strings.Index(v, "${tag:current}"); i >= 0 && v != "${tag:current}" {
			// the current tag embedded in a larger (malformed or list) value
			cur := ex.curTag
			if cur == "" {
				cur = "\"vsim-unknown-fallback\""
			}
			v = strings.ReplaceAll(v, "${tag:current}", cur)
		}
		if strings.HasPrefix(v, "${tag:") {
			cur := ex.curTag
			switch v {
			case "${tag:current}":
				v = cur
				if v != "" {
					ex.probe("cond-current-tag")
				}
			case "${tag:stale}":
				v = ""
				for _, old := range ex.tags[target] {
					if old != cur {
						v = old
					}
				}
				if v != "" {
					ex.probe("cond-stale-tag")
				}
			case "${tag:other}":
				v = ""
				var ps []string
				for p := range ex.snap {
					ps = append(ps, p)
				}
				sort.Strings(ps)
				for _, p := range ps {
					if p != target && !ex.snap[p].Dir && v == "" {
						if o := ex.probeTag(idx, p); o != "" && o != cur {
							v = o
							ex.probe("cond-other-tag")
						}
					}
				}
			}
			if v == "" {
				v = "\"vsim-unknown-fallback\""
			}
		}
		c.Headers[i] = [2]string{h[0], v}
	}
	return &c
}

// canonBody renders a response body for the event log. The order of the
// properties inside a propstat comes from Go's randomised map iteration in
// go-webdav (internal.NewPropFindResponse) and carries no meaning, so a
// multi-status is logged with its properties sorted.
func canonBody(r *model.Response) string {
	if r.Status != 207 {
		return string(r.Body)
	}
	ms, err := model.ParseMultiStatus(r.Body)
	if err != nil {
		return string(r.Body)
	}
	var b strings.Builder
	for _, resp := range ms.Responses {
		fmt.Fprintf(&b, "[%s status=%d", strings.Join(resp.Hrefs, ","), resp.Status)
		var ps []string
		for _, p := range resp.Props {
			ps = append(ps, fmt.Sprintf(" %d:%s=%s", p.Status, p.Name, renderElem(p.Elem)))
		}
		sort.Strings(ps)
		b.WriteString(strings.Join(ps, ""))
		b.WriteString("]")
	}
	return b.String()
}

func renderElem(e *model.Elem) string {
	s := strings.TrimSpace(e.Text)
	for _, k := range e.Kids {
		s += "<" + k.Name() + ">" + renderElem(k)
	}
	return s
}

func clipS(s string, n int) string {
	if len(s) > n {
		return s[:n] + "..."
	}
	return s
}

func sortedHeader(h http.Header) string {
	var ks []string
	for k := range h {
		ks = append(ks, k)
	}
	sort.Strings(ks)
	var b strings.Builder
	for _, k := range ks {
		fmt.Fprintf(&b, "%s=%q ", k, h[k])
	}
	return b.String()
}

// judgeExchange applies every oracle to one exchange.
func (ex *executor) judgeExchange(idx int, st *Step, xc *Exchange) {
	cfg := &ex.plan.Config
	class := st.Method
	if ex.judge != nil {
		class = ex.judge.Class(&xc.Req)
	} else if cfg.Hostile {
		class = st.Method + " hostile"
	} else {
		class = classFromSnapshot(ex.snap, &xc.Req)
	}
	ex.res.Stats.Classes[class]++
	add := func(prop, clause, msg string) {
		ex.finding(Violation{Prop: prop, Clause: clause, Class: class, Msg: msg, Step: idx})
	}

	if xc.Resp.Status >= 400 {
		ex.res.Stats.NT("C17|" + class + fmt.Sprintf(" status=%d", xc.Resp.Status))
	}
	if cfg.Hostile && len(ex.seam.Calls) > 0 {
		ex.res.Stats.NT("C03|" + st.Method + "|target " + hostileFeatures(st.Target, ex.w.Sandbox))
		if dv, ok := xc.Req.H["Destination"]; ok {
			ex.res.Stats.NT("C03|" + st.Method + "|destination " + hostileFeatures(dv, ex.w.Sandbox))
		}
	}
	if ex.curKnown && !st.Probe && (st.Method == "PUT" || st.Method == "DELETE") {
		ex.checkHelper(idx, class, xc)
	}

	// C13: the handler must not panic
	if xc.Panic != "" {
		ex.res.Stats.Panics++
		add("C13", "panic", "handler panicked: "+xc.Panic)
	}

	// C17: no response byte sequence contains the host path
	for _, leak := range ex.leaks {
		if requestCarries(st, leak) || requestCarries(st, ex.w.Sandbox) {
			// the client itself sent the path (hostile workload): echoing it
			// back discloses nothing
			ex.probe("leak-check-skipped-client-sent-the-path")
			continue
		}
		if where := findLeak(&xc.Resp, leak); where != "" {
			culprit := ""
			for _, c := range ex.seam.Calls {
				if c.Err != "" {
					culprit = c.Fn + ":" + errKind(c.Err)
				}
			}
			ex.finding(Violation{Prop: "C17", Clause: "path-leak", Class: st.Method + " via=" + culprit + " status=" + fmt.Sprint(xc.Resp.Status),
				Msg: fmt.Sprintf("response %s contains the host path: %q", where, clipS(strings.ReplaceAll(leakContext(&xc.Resp, leak), ex.w.Sandbox, "$SB"), 300)), Step: idx})
			break
		}
	}

	// C03: confinement
	if len(ex.seam.Outside) > 0 {
		add("C03", "outside-access", fmt.Sprintf("file-system calls left the served root: %s", strings.ReplaceAll(strings.Join(ex.seam.Outside, ", "), ex.w.Sandbox, "$SB")))
	}
	if msg, changed := ex.w.OutsideChanged(); changed {
		add("C03", "canary-changed", msg)
	}
	np := model.Normalise(xc.Req.Path)
	if !np.OK && !(xc.Resp.Status >= 400 && xc.Resp.Status < 500) {
		add("C03", "unmappable-not-refused", fmt.Sprintf("path %q cannot be mapped below the root but was answered %d", xc.Req.Path, xc.Resp.Status))
	}

	after := ex.snapshot()
	ex.res.Stats.shape(shapeOf(after))

	if xc.Resp.Status == 207 && !xc.RespCut {
		ex.checkHrefs(idx, class, xc, after)
	}

	// C02: failure leaves the tree alone
	diskFault := len(ex.seam.Fired) > 0
	changed := model.DiffSnap(ex.snap, after)
	if xc.BodyFailed && xc.Resp.Status/100 == 2 {
		add("C02", "ack-after-broken-body", fmt.Sprintf("the body stream failed after %d of %d bytes (%s) but the request was answered %d", xc.Delivered, len(st.Body), xc.BodyFault.Kind, xc.Resp.Status))
	}
	if xc.Resp.Status >= 400 {
		if hadSomethingToDestroy(ex.snap, &xc.Req) {
			ex.res.Stats.NT("C02|" + class)
		}
		switch {
		case diskFault:
			ex.judgeDiskFault(idx, class, st, xc, after)
		case changed != "" && xc.BodyFailed:
			add("C02", "tree-changed-on-broken-body", fmt.Sprintf("answered %d after the body stream broke at byte %d of %d (%s), but the stored tree changed: %s", xc.Resp.Status, xc.Delivered, len(st.Body), xc.BodyFault.Kind, changed))
		case changed != "":
			add("C02", "tree-changed-on-refusal", fmt.Sprintf("answered %d but the stored tree changed: %s", xc.Resp.Status, changed))
		}
	} else if diskFault {
		ex.judgeDiskFault(idx, class, st, xc, after)
	}

	// C01 / C04: the resource-tree model. An answer whose connection broke
	// while it was written (only read-only requests get that fault) is not
	// compared: what matters is what the requests after it are told.
	if xc.RespCut {
		ex.probe("answer-cut-by-a-vanished-client")
	}
	if ex.judge != nil && !diskFault && !xc.RespCut {
		fs := ex.judge.Step(&xc.Req, &xc.Resp)
		diverged := false
		for _, f := range fs {
			ex.finding(Violation{Prop: f.Prop, Clause: f.Clause, Class: f.Class, Msg: f.Msg, Step: idx})
			if f.Clause == "status" || strings.Contains(f.Clause, "precondition") {
				diverged = true
			}
		}
		if d := ex.judge.T.Diff(after); d != "" {
			prop := "C01"
			if xc.Req.Has("If-Match") || xc.Req.Has("If-None-Match") {
				prop = "C04"
			}
			add(prop, "tree-after", fmt.Sprintf("answered %d; stored tree and model differ: %s", xc.Resp.Status, d))
			diverged = true
		}
		if diverged && !ex.stop {
			ex.res.Stats.Aborted++
			ex.stop = true // later steps would be judged against a diverged state
		}
		nt := np.OK && (hasPath(ex.snap, np.Path) || changed != "")
		if nt {
			ex.res.Stats.NT("C01|" + abstractShape(ex.snap) + "|" + class)
			if xc.Req.Has("If-Match") || xc.Req.Has("If-None-Match") {
				ex.res.Stats.NT("C04|" + class)
			}
		}
	}
	if xc.Resp.Status == 207 && !xc.RespCut && !diskFault && (ex.opts.Own == "C03" || ex.opts.Own == "") && !ex.stop {
		ex.reAddress(idx, class, xc, after)
	}
	ex.snap = after
}

// reAddress sends hrefs of a listing back as request paths, literally: the
// resource the server then talks about must be the one the href stood for in
// the listing (same kind, for files the same bytes). This is C03's "addresses
// the same resource when sent back" carried out instead of computed.
func (ex *executor) reAddress(idx int, class string, xc *Exchange, snap map[string]model.Entry) {
	ms, err := model.ParseMultiStatus(xc.Resp.Body)
	if err != nil {
		return
	}
	var hrefs []string
	for _, r := range ms.Responses {
		hrefs = append(hrefs, r.Hrefs...)
	}
	if len(hrefs) == 0 {
		return
	}
	rr := rt.NewRand(rt.Mix(ex.plan.RunSeed, uint64(idx), 0x4ef5))
	for k := 0; k < 2 && k < len(hrefs); k++ {
		h := hrefs[rr.Intn(len(hrefs))]
		ref := model.ParseHref(h)
		n := model.Normalise(ref.Path)
		e, ok := snap[n.Path]
		if !ref.OK || !n.OK || !ok || strings.ContainsAny(h, " \r\n") {
			continue // reported by checkHrefs already (or not sendable as a request-target)
		}
		target := h
		if ref.HasAuth {
			continue
		}
		method := "PROPFIND"
		if !e.Dir {
			method = "GET"
		}
		pst := &Step{Client: -1, Method: method, Target: target, Probe: true}
		if method == "PROPFIND" {
			pst.set("Depth", "0")
		}
		ex.seam.BeginStep(nil)
		px := ex.serve(idx, pst)
		if px.Skipped != "" {
			continue
		}
		ex.probe("href-sent-back")
		ex.log.Addf("  href %q sent back as %s -> %d", h, method, px.Resp.Status)
		switch {
		case px.Resp.Status/100 != 2:
			ex.finding(Violation{Prop: "C03", Clause: "href-other-resource", Class: class, Msg: fmt.Sprintf("href %q (= %s, stored) sent back as the request path of a %s was answered %d", h, n.Path, method, px.Resp.Status), Step: idx})
		case !e.Dir && !bytes.Equal(px.Resp.Body, e.Data):
			ex.finding(Violation{Prop: "C03", Clause: "href-other-resource", Class: class, Msg: fmt.Sprintf("href %q (= %s) sent back as the request path of a GET returned other bytes than that file holds (%d vs %d bytes)", h, n.Path, len(px.Resp.Body), len(e.Data)), Step: idx})
		case e.Dir:
			if pms, err := model.ParseMultiStatus(px.Resp.Body); err == nil && len(pms.Responses) == 1 {
				if t := pms.Responses[0].Prop("{DAV:}resourcetype"); t != nil && t.Elem.Child(model.DAV, "collection") == nil {
					ex.finding(Violation{Prop: "C03", Clause: "href-other-resource", Class: class, Msg: fmt.Sprintf("href %q (= %s, a collection) sent back as the request path of a PROPFIND describes something that is not a collection", h, n.Path), Step: idx})
				}
			}
		}
		if len(ex.seam.Outside) > 0 {
			ex.finding(Violation{Prop: "C03", Clause: "outside-access", Class: class, Msg: fmt.Sprintf("sending href %q back left the served root: %s", h, strings.ReplaceAll(strings.Join(ex.seam.Outside, ", "), ex.w.Sandbox, "$SB")), Step: idx})
		}
	}
}

// abstractShape forgets names and sizes: per depth, how many collections and
// how many files there are.
func abstractShape(s map[string]model.Entry) string {
	var dirs, files [8]int
	for p, e := range s {
		d := 0
		if p != "/" {
			d = strings.Count(p, "/")
		}
		if d > 7 {
			d = 7
		}
		if e.Dir {
			dirs[d]++
		} else {
			files[d]++
		}
	}
	var b strings.Builder
	for d := 0; d < 8; d++ {
		if dirs[d]+files[d] > 0 {
			fmt.Fprintf(&b, "%d:%dc%df ", d, dirs[d], files[d])
		}
	}
	return b.String()
}

func normPath(p string) string { return model.Normalise(p).Path }

func hasPath(s map[string]model.Entry, p string) bool { _, ok := s[p]; return ok }

func shapeOf(s map[string]model.Entry) string {
	var ks []string
	for k, e := range s {
		if e.Dir {
			ks = append(ks, k+"/")
		} else {
			ks = append(ks, fmt.Sprintf("%s=%d", k, len(e.Data)))
		}
	}
	sort.Strings(ks)
	return strings.Join(ks, ";")
}

func errKind(e string) string {
	if i := strings.LastIndex(e, ": "); i >= 0 {
		return e[i+2:]
	}
	return e
}

// hostileFeatures names the traversal devices a target or Destination uses.
func hostileFeatures(s, sandbox string) string {
	var f []string
	has := func(name string, subs ...string) {
		for _, x := range subs {
			if strings.Contains(strings.ToLower(s), x) {
				f = append(f, name)
				return
			}
		}
	}
	has("abs-host-path", strings.ToLower(strings.TrimPrefix(sandbox, "/")))
	has("dotdot", "..")
	has("enc-dot", "%2e", "%c0%ae", "%e0%80%ae", "%ef%bc%8e", "%u002e", "%252e")
	has("enc-slash", "%2f", "%c0%af")
	has("backslash", "\\", "%5c")
	has("nul", "%00")
	has("prefix-twin", "-evil", ".bak")
	has("sibling", "sibling", "canary")
	has("authority", "http://", "//dav.test", "https://")
	has("semicolon", ";")
	has("query-or-fragment", "?", "#")
	has("dot-space", ". ", ".%20", "%20.")
	if len(s) > 300 {
		f = append(f, "long")
	}
	if len(f) == 0 {
		return "plain"
	}
	return strings.Join(f, "+")
}

func requestCarries(st *Step, leak string) bool {
	l := strings.TrimPrefix(leak, "/")
	if strings.Contains(st.Target, l) {
		return true
	}
	for _, h := range st.Headers {
		if strings.Contains(h[1], l) {
			return true
		}
	}
	return false
}

func findLeak(r *model.Response, leak string) string {
	for k, vs := range r.H {
		for _, v := range vs {
			if strings.Contains(v, leak) || strings.Contains(k, leak) {
				return "header " + k
			}
		}
	}
	if bytes.Contains(r.Body, []byte(leak)) {
		return "body"
	}
	return ""
}

func leakContext(r *model.Response, leak string) string {
	for _, vs := range r.H {
		for _, v := range vs {
			if strings.Contains(v, leak) {
				return v
			}
		}
	}
	return string(r.Body)
}

// checkHelper compares the public ConditionalMatch helpers with the statement
// of C04: MatchETag is true exactly for "*" or an equal tag against an existing
// resource.
func (ex *executor) checkHelper(idx int, class string, xc *Exchange) {
	defer func() {
		if r := recover(); r != nil {
			ex.finding(Violation{Prop: "C04", Clause: "helper-disagrees", Class: class, Msg: fmt.Sprintf("a ConditionalMatch helper panicked on If-Match %q / If-None-Match %q: %v", xc.Req.H["If-Match"], xc.Req.H["If-None-Match"], r), Step: idx})
		}
	}()
	cur := ex.curTag // wire form: a quoted string, or "" when there is no file
	plain := ""
	simple := false
	if len(cur) >= 2 && cur[0] == '"' && cur[len(cur)-1] == '"' && !strings.ContainsAny(cur[1:len(cur)-1], "\"\\") {
		plain, simple = cur[1:len(cur)-1], true
	}
	for _, h := range []string{"If-Match", "If-None-Match"} {
		v, ok := xc.Req.H[h]
		if !ok {
			continue
		}
		cm := webdav.ConditionalMatch(v)
		bad := func(msg string) {
			ex.finding(Violation{Prop: "C04", Clause: "helper-disagrees", Class: class, Msg: fmt.Sprintf("ConditionalMatch(%q): %s", v, msg), Step: idx})
		}
		if cm.IsSet() != (v != "") {
			bad(fmt.Sprintf("IsSet() = %v", cm.IsSet()))
		}
		if cm.IsWildcard() != (v == "*") {
			bad(fmt.Sprintf("IsWildcard() = %v", cm.IsWildcard()))
		}
		if got, _ := cm.MatchETag(""); got {
			bad("MatchETag(\"\") is true although no resource exists")
		}
		if simple {
			got, err := cm.MatchETag(plain)
			want := v == "*" || v == cur
			if got != want && !(err != nil && !want) {
				bad(fmt.Sprintf("MatchETag(%q) = %v, %v; the statement says %v", plain, got, err, want))
			}
			if want && err != nil {
				bad(fmt.Sprintf("MatchETag(%q) returns an error for a matching tag: %v", plain, err))
			}
			ex.probe("helper-compared")
		}
	}
}

// classFromSnapshot is a model-free request class for profiles that do not
// run the judge.
func classFromSnapshot(snap map[string]model.Entry, req *model.Request) string {
	kindOf := func(p string) string {
		n := model.Normalise(p)
		if !n.OK {
			return "unmappable"
		}
		e, ok := snap[n.Path]
		switch {
		case !ok:
			if _, pok := snap[model.Parent(n.Path)]; !pok {
				return "missing-noparent"
			}
			return "missing"
		case e.Dir:
			return "coll"
		}
		return "file"
	}
	s := req.Method + " target=" + kindOf(req.Path)
	if dv, ok := req.H["Destination"]; ok {
		ref := model.ParseRef(dv)
		if !ref.OK {
			s += " dst=invalid"
		} else {
			d, p := model.Normalise(ref.Path), model.Normalise(req.Path)
			switch {
			case d.OK && p.OK && d.Path == p.Path:
				s += " dst=self"
			case d.OK && p.OK && model.IsAncestor(p.Path, d.Path):
				s += " dst=descendant"
			case d.OK && p.OK && model.IsAncestor(d.Path, p.Path):
				s += " dst=ancestor"
			default:
				s += " dst=" + kindOf(ref.Path)
			}
		}
		if v, ok := req.H["Overwrite"]; ok {
			s += " ow=" + clipS(v, 8)
		}
	}
	if req.Has("If-Match") {
		s += " if-match"
	}
	if req.Has("If-None-Match") {
		s += " if-none-match"
	}
	if req.BodyBroken {
		s += " body=broken"
	}
	return s
}

// hadSomethingToDestroy: a refused/failed request for which a pre-existing
// resource sat at the target or destination.
func hadSomethingToDestroy(snap map[string]model.Entry, req *model.Request) bool {
	if n := model.Normalise(req.Path); n.OK && n.Path != "/" {
		if _, ok := snap[n.Path]; ok {
			return true
		}
	}
	if dv, ok := req.H["Destination"]; ok {
		if ref := model.ParseRef(dv); ref.OK {
			if n := model.Normalise(ref.Path); n.OK && n.Path != "/" {
				if _, ok := snap[n.Path]; ok {
					return true
				}
			}
		}
	}
	return false
}

// checkHrefs: every href of a multi-status lies inside the namespace and
// addresses the resource it describes (C03).
func (ex *executor) checkHrefs(idx int, class string, xc *Exchange, snap map[string]model.Entry) {
	ms, err := model.ParseMultiStatus(xc.Resp.Body)
	if err != nil {
		return // judged elsewhere (C01 body)
	}
	for _, r := range ms.Responses {
		for _, h := range r.Hrefs {
			ref := model.ParseHref(h)
			n := model.Normalise(ref.Path)
			if !ref.OK || !n.OK || ref.HasAuth {
				ex.finding(Violation{Prop: "C03", Clause: "href-outside", Class: class, Msg: fmt.Sprintf("href %q does not lie inside the served namespace", h), Step: idx})
				continue
			}
			e, ok := snap[n.Path]
			if !ok {
				ex.finding(Violation{Prop: "C03", Clause: "href-other-resource", Class: class, Msg: fmt.Sprintf("href %q (= %s) addresses nothing that is stored", h, n.Path), Step: idx})
				continue
			}
			if rt := r.Prop("{DAV:}resourcetype"); rt != nil && !strings.Contains(model.PropfindForm(&xc.Req), "propname") {
				if (rt.Elem.Child(model.DAV, "collection") != nil) != e.Dir {
					ex.finding(Violation{Prop: "C03", Clause: "href-other-resource", Class: class, Msg: fmt.Sprintf("href %q (= %s) is described as collection=%v but addresses a %v", h, n.Path, !e.Dir, e.Dir), Step: idx})
				}
			}
			ex.probe("href-checked")
		}
	}
}

// judgeDiskFault is the narrowly relaxed C02 rule for requests during which an
// injected disk error fired.
func (ex *executor) judgeDiskFault(idx int, class string, st *Step, xc *Exchange, after map[string]model.Entry) {
	add := func(clause, msg string) {
		ex.finding(Violation{Prop: "C02", Clause: clause, Class: class + " disk-fault", Msg: msg, Step: idx})
	}
	var hits []string
	// complete: some file received every byte of the body through successful
	// writes and was then closed successfully (the new content existed as a
	// whole; the failure that was reported came from another call)
	complete, removePhase := false, false
	written := map[string]int{}
	for _, c := range ex.seam.Calls {
		if c.Injected != "" {
			hits = append(hits, c.Fn+"="+c.Injected)
			if c.Op == "remove" || c.Op == "unlinkat" {
				removePhase = true
			}
			if _, own := written[c.Path]; own && (c.Op == "stat" || c.Op == "lstat") {
				// the request could not look at a file it had created itself: a
				// clean-up that first makes sure the file is (still) its own is
				// impaired just like one whose remove call fails
				removePhase = true
			}
			continue
		}
		if !c.Writable || c.Err != "" {
			continue
		}
		switch c.Op {
		case "open":
			written[c.Path] = 0
		case "write":
			written[c.Path] += c.N
		case "close":
			if written[c.Path] == len(st.Body) {
				complete = true
			}
		}
	}
	what := strings.Join(hits, ",")
	np := model.Normalise(xc.Req.Path)
	if !np.OK {
		return
	}
	involved := []string{np.Path}
	if dv, ok := xc.Req.H["Destination"]; ok {
		if ref := model.ParseRef(dv); ref.OK {
			if d := model.Normalise(ref.Path); d.OK {
				involved = append(involved, d.Path)
			}
		}
	}
	inInvolved := func(p string) bool {
		for _, q := range involved {
			if p == q || model.IsAncestor(q, p) {
				return true
			}
		}
		return false
	}
	// everything outside the addressed subtrees is untouched
	for p, b := range ex.snap {
		if inInvolved(p) {
			continue
		}
		a, ok := after[p]
		if !ok || a.Dir != b.Dir || !bytes.Equal(a.Data, b.Data) {
			add("collateral-damage", fmt.Sprintf("injected %s; answered %d; %s, which the request did not address, changed or vanished", what, xc.Resp.Status, p))
			return
		}
	}
	if st.Method != "PUT" {
		return
	}
	old, hadOld := ex.snap[np.Path]
	now, hasNow := after[np.Path]
	isOld := hadOld == hasNow && (!hadOld || (old.Dir == now.Dir && bytes.Equal(old.Data, now.Data)))
	isNew := hasNow && !now.Dir && bytes.Equal(now.Data, st.Body)
	if xc.Resp.Status/100 == 2 {
		if !isNew {
			add("ack-without-data", fmt.Sprintf("injected %s; PUT answered %d but the target does not hold the complete new content", what, xc.Resp.Status))
		}
	} else {
		switch {
		case isOld:
		case isNew && complete:
			ex.probe("disk-fault-after-commit")
		case removePhase && !hadOld && hasNow && !now.Dir:
			// the stray file of an impaired clean-up, under a name that happens
			// to be the target's (there was nothing at the target to destroy)
			ex.probe("leftover-of-an-impaired-clean-up-at-the-target")
		default:
			add("torn-after-disk-fault", fmt.Sprintf("injected %s; PUT answered %d; the target holds neither its complete old content nor the complete new one (old: %s, now: %s)", what, xc.Resp.Status, descEntry(old, hadOld), descEntry(now, hasNow)))
			return
		}
	}
	// no stray names, unless a call of the clean-up was the one that failed
	for p := range after {
		if _, ok := ex.snap[p]; !ok && p != np.Path && !removePhase {
			add("leftover", fmt.Sprintf("injected %s; PUT answered %d; a new name %s was left behind", what, xc.Resp.Status, p))
			return
		}
	}
}

func descEntry(e model.Entry, ok bool) string {
	if !ok {
		return "absent"
	}
	if e.Dir {
		return "collection"
	}
	return fmt.Sprintf("%d bytes %q", len(e.Data), clipS(string(e.Data), 16))
}
