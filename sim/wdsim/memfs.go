//go:build go1.25

package wdsim

import (
	"bytes"
	"context"
	"fmt"
	"io"
	"net/http"
	"sort"
	"strings"
	"testing/iotest"
	"time"

	webdav "github.com/emersion/go-webdav"
	"github.com/emersion/go-webdav/vsim/model"
	"github.com/emersion/go-webdav/vsim/rt"
)

// MemFS is the second store of C05: an in-memory, recording webdav.FileSystem
// that can hold arbitrary metadata (entity tags with quotes, backslashes and
// non-ASCII text, arbitrary instants, MIME types and sizes).
type MemFS struct {
	bkCore
	nodes map[string]*memNode
	recs  []memRecord
	rng   *rt.Rand
	mark  int

	streamFault *Fault // Open hands out a stream that fails after At bytes
	streamFired bool
	directCall  bool // the oracle itself is asking: no faults

	UniqueTags  bool // one tag per stored version
	Conditional bool // evaluate If-Match / If-None-Match (with the public helpers)
	tagSeq      int
}

type memNode struct {
	info webdav.FileInfo
	data []byte
}

type memRecord struct {
	Op, Name, Dest           string
	Recursive                bool
	NoRecursive, NoOverwrite bool
	IfMatch, IfNoneMatch     string
}

var exoticTags = []string{"abc", "W/\"x\"", "with \"quotes\"", "back\\slash", "ünï-cödé", "tab\there", "日本語", "", strings.Repeat("long", 80), "\xff\xfe", "a'b", "<&>", "%41", " lead and trail ", "\\\"", "new\nline",
	// tags that are quoted strings themselves (a backend that stores the wire form), or look like the wildcard
	"\"v1\"", "\"\"", "\"a\\\"b\"", "*", "\"*\"", "W/\"\"", strings.Repeat("k", 127), strings.Repeat("k", 128), strings.Repeat("k", 129), "tag-gzip", "tag-br"}
var exoticMimes = []string{"", "text/plain", "text/plain; charset=utf-8", "application/x-vsim+json", "a/b;x=\"q z\"", "TEXT/HTML", "application/octet-stream", "image/svg+xml"}

// uniqueTag makes a per-version tag from an exotic base: the counter goes
// inside the quotes of bases that are quoted strings themselves, in front of a
// suffix that proxies like to add, behind everything else.
func uniqueTag(base string, seq int) string {
	switch {
	case len(base) >= 2 && strings.HasPrefix(base, "\"") && strings.HasSuffix(base, "\""):
		return fmt.Sprintf("%s#%d\"", base[:len(base)-1], seq)
	case strings.HasSuffix(base, "-gzip") || strings.HasSuffix(base, "-br"):
		i := strings.LastIndex(base, "-")
		return fmt.Sprintf("%s#%d%s", base[:i], seq, base[i:])
	}
	return fmt.Sprintf("%s#%d", base, seq)
}

func exoticTime(r *rt.Rand) time.Time {
	switch r.Intn(9) {
	case 0:
		return time.Time{}
	case 1:
		return time.Unix(0, 0).UTC()
	case 2:
		return time.Date(1, 1, 1, 0, 0, 1, 0, time.UTC)
	case 3:
		return time.Date(9999, 12, 31, 23, 59, 59, 0, time.UTC)
	case 4:
		return time.Date(2024, 2, 29, 12, 0, 0, 999999999, time.UTC)
	case 5:
		return time.Date(2001, 9, 9, 1, 46, 40, 0, time.FixedZone("x", 5*3600+1800))
	case 6:
		return time.Date(1969, 12, 31, 23, 59, 59, 0, time.FixedZone("y", -8*3600))
	}
	return time.Unix(int64(r.Intn(4_000_000_000)), int64(r.Intn(1_000_000_000))).UTC()
}

func NewMemFS(seed uint64) *MemFS {
	m := &MemFS{nodes: map[string]*memNode{}, rng: rt.NewRand(seed)}
	m.nodes["/"] = &memNode{info: webdav.FileInfo{Path: "/", IsDir: true}}
	return m
}

func (m *MemFS) meta(p string, data []byte) webdav.FileInfo {
	tag := rt.Pick(m.rng, exoticTags)
	if m.UniqueTags {
		// every stored version gets its own tag (a strong validator): an exotic
		// base plus a version counter
		m.tagSeq++
		tag = uniqueTag(tag, m.tagSeq)
	}
	size := int64(len(data))
	if m.rng.Chance(0.08) && !m.Conditional {
		// a size that is only metadata (the stored bytes do not follow it): the
		// range of what a backend may report
		size = rt.Pick(m.rng, []int64{1<<31 - 1, 1 << 31, 1<<32 + 1, 1<<53 + 1, 1 << 62})
	}
	return webdav.FileInfo{Path: p, Size: size, ModTime: exoticTime(m.rng), MIMEType: rt.Pick(m.rng, exoticMimes), ETag: tag}
}

// checkCond evaluates If-Match / If-None-Match the way the statement of C04
// spells it out, using nothing but the public ConditionalMatch helpers - what
// any backend author would write.
func (m *MemFS) checkCond(n *memNode, ifMatch, ifNoneMatch webdav.ConditionalMatch) error {
	if !m.Conditional {
		return nil
	}
	tag := ""
	if n != nil {
		tag = n.info.ETag
		if n.info.IsDir {
			tag = "collection-tag"
		}
	}
	if ifMatch.IsSet() {
		if ok, err := ifMatch.MatchETag(tag); err != nil {
			return webdav.NewHTTPError(http.StatusBadRequest, err)
		} else if !ok {
			return webdav.NewHTTPError(http.StatusPreconditionFailed, fmt.Errorf("memfs: If-Match failed"))
		}
	}
	if ifNoneMatch.IsSet() {
		if ok, err := ifNoneMatch.MatchETag(tag); err != nil {
			return webdav.NewHTTPError(http.StatusBadRequest, err)
		} else if ok {
			return webdav.NewHTTPError(http.StatusPreconditionFailed, fmt.Errorf("memfs: If-None-Match failed"))
		}
	}
	return nil
}

func (m *MemFS) norm(name string) (string, error) {
	n := model.Normalise(name)
	if !n.OK {
		return "", webdav.NewHTTPError(http.StatusBadRequest, fmt.Errorf("memfs: bad path %q", name))
	}
	return n.Path, nil
}

func notFound(p string) error {
	return webdav.NewHTTPError(http.StatusNotFound, fmt.Errorf("memfs: %q not found", p))
}

func (m *MemFS) Open(ctx context.Context, name string) (io.ReadCloser, error) {
	p, err := m.norm(name)
	if err != nil {
		return nil, err
	}
	m.recs = append(m.recs, memRecord{Op: "Open", Name: name})
	if err := m.enter("Open", name, false, "", ""); err != nil {
		return nil, err
	}
	n := m.nodes[p]
	if n == nil || n.info.IsDir {
		return nil, notFound(p)
	}
	// not an io.Seeker on purpose: exercises the handler's plain io.Copy branch
	if !m.directCall && m.streamFault == nil {
		// readers differ in how they end: io.EOF on its own, or together with
		// the last bytes (gzip, HTTP bodies and iotest.DataErrReader do that), in
		// big or in tiny reads
		switch m.rng.Intn(4) {
		case 1:
			return io.NopCloser(iotest.DataErrReader(bytes.NewReader(n.data))), nil
		case 2:
			return io.NopCloser(iotest.OneByteReader(bytes.NewReader(n.data))), nil
		case 3:
			return io.NopCloser(iotest.DataErrReader(iotest.HalfReader(bytes.NewReader(n.data)))), nil
		}
	}
	if f := m.streamFault; f != nil && !m.directCall {
		m.streamFired = true
		return &FaultBody{Data: n.data, Fault: &Fault{Seam: "backend-stream", At: f.At % (len(n.data) + 1), Kind: "custom-error"}}, nil
	}
	return io.NopCloser(bytes.NewReader(n.data)), nil
}

func (m *MemFS) Stat(ctx context.Context, name string) (*webdav.FileInfo, error) {
	p, err := m.norm(name)
	if err != nil {
		return nil, err
	}
	m.recs = append(m.recs, memRecord{Op: "Stat", Name: name})
	if err := m.enter("Stat", name, false, "", ""); err != nil {
		return nil, err
	}
	n := m.nodes[p]
	if n == nil {
		return nil, notFound(p)
	}
	fi := n.info
	return &fi, nil
}

func (m *MemFS) ReadDir(ctx context.Context, name string, recursive bool) ([]webdav.FileInfo, error) {
	p, err := m.norm(name)
	if err != nil {
		return nil, err
	}
	m.recs = append(m.recs, memRecord{Op: "ReadDir", Name: name, Recursive: recursive})
	if err := m.enter("ReadDir", name, false, "", ""); err != nil {
		return nil, err
	}
	if m.nodes[p] == nil {
		return nil, notFound(p)
	}
	var ks []string
	for q := range m.nodes {
		if q == p || (recursive && model.IsAncestor(p, q)) || (!recursive && q != "/" && model.Parent(q) == p && q != p) {
			ks = append(ks, q)
		}
	}
	sort.Strings(ks)
	out := make([]webdav.FileInfo, 0, len(ks))
	for _, q := range ks {
		out = append(out, m.nodes[q].info)
	}
	return out, nil
}

func (m *MemFS) Create(ctx context.Context, name string, body io.ReadCloser, opts *webdav.CreateOptions) (*webdav.FileInfo, bool, error) {
	p, err := m.norm(name)
	if err != nil {
		return nil, false, err
	}
	m.recs = append(m.recs, memRecord{Op: "Create", Name: name, IfMatch: string(opts.IfMatch), IfNoneMatch: string(opts.IfNoneMatch)})
	if err := m.enter("Create", name, false, string(opts.IfMatch), string(opts.IfNoneMatch)); err != nil {
		return nil, false, err
	}
	if pn := m.nodes[model.Parent(p)]; pn == nil || !pn.info.IsDir {
		return nil, false, webdav.NewHTTPError(http.StatusConflict, fmt.Errorf("memfs: parent missing"))
	}
	old := m.nodes[p]
	if old != nil && old.info.IsDir {
		return nil, false, webdav.NewHTTPError(http.StatusMethodNotAllowed, fmt.Errorf("memfs: is a collection"))
	}
	if err := m.checkCond(old, opts.IfMatch, opts.IfNoneMatch); err != nil {
		return nil, false, err
	}
	data, err := io.ReadAll(body)
	if err != nil {
		return nil, false, err
	}
	n := &memNode{data: data}
	n.info = m.meta(p, data)
	m.nodes[p] = n
	fi := n.info
	return &fi, old == nil, nil
}

func (m *MemFS) removeTree(p string) {
	for q := range m.nodes {
		if q == p || model.IsAncestor(p, q) {
			delete(m.nodes, q)
		}
	}
}

func (m *MemFS) RemoveAll(ctx context.Context, name string, opts *webdav.RemoveAllOptions) error {
	p, err := m.norm(name)
	if err != nil {
		return err
	}
	m.recs = append(m.recs, memRecord{Op: "RemoveAll", Name: name, IfMatch: string(opts.IfMatch), IfNoneMatch: string(opts.IfNoneMatch)})
	if err := m.enter("RemoveAll", name, false, "", ""); err != nil {
		return err
	}
	if m.nodes[p] == nil {
		return notFound(p)
	}
	if err := m.checkCond(m.nodes[p], opts.IfMatch, opts.IfNoneMatch); err != nil {
		return err
	}
	if p == "/" {
		return webdav.NewHTTPError(http.StatusForbidden, fmt.Errorf("memfs: the root stays"))
	}
	m.removeTree(p)
	return nil
}

func (m *MemFS) Mkdir(ctx context.Context, name string) error {
	p, err := m.norm(name)
	if err != nil {
		return err
	}
	m.recs = append(m.recs, memRecord{Op: "Mkdir", Name: name})
	if err := m.enter("Mkdir", name, false, "", ""); err != nil {
		return err
	}
	if m.nodes[p] != nil {
		return webdav.NewHTTPError(http.StatusMethodNotAllowed, fmt.Errorf("memfs: exists"))
	}
	if pn := m.nodes[model.Parent(p)]; pn == nil || !pn.info.IsDir {
		return notFound(model.Parent(p))
	}
	m.nodes[p] = &memNode{info: webdav.FileInfo{Path: p, IsDir: true, ModTime: exoticTime(m.rng)}}
	return nil
}

func (m *MemFS) copyMove(op, name, dest string, noRec, noOw bool) (bool, error) {
	p, err := m.norm(name)
	if err != nil {
		return false, err
	}
	d, err := m.norm(dest)
	if err != nil {
		return false, err
	}
	m.recs = append(m.recs, memRecord{Op: op, Name: name, Dest: dest, NoRecursive: noRec, NoOverwrite: noOw})
	if err := m.enter(op, name, false, "", ""); err != nil {
		return false, err
	}
	if m.nodes[p] == nil {
		return false, notFound(p)
	}
	if p == d || model.IsAncestor(p, d) || model.IsAncestor(d, p) {
		return false, webdav.NewHTTPError(http.StatusForbidden, fmt.Errorf("memfs: source and destination overlap"))
	}
	if pn := m.nodes[model.Parent(d)]; pn == nil || !pn.info.IsDir {
		return false, webdav.NewHTTPError(http.StatusConflict, fmt.Errorf("memfs: destination parent missing"))
	}
	created := m.nodes[d] == nil
	if !created && noOw {
		return false, webdav.NewHTTPError(http.StatusPreconditionFailed, fmt.Errorf("memfs: destination exists"))
	}
	m.removeTree(d)
	var ks []string
	for q := range m.nodes {
		if q == p || (model.IsAncestor(p, q) && !noRec) {
			ks = append(ks, q)
		}
	}
	sort.Strings(ks)
	for _, q := range ks {
		n := *m.nodes[q]
		n.info.Path = d + strings.TrimPrefix(q, p)
		if m.UniqueTags && !n.info.IsDir {
			m.tagSeq++
			n.info.ETag = uniqueTag(rt.Pick(m.rng, exoticTags), m.tagSeq)
		}
		m.nodes[n.info.Path] = &n
	}
	if op == "Move" {
		m.removeTree(p)
	}
	return created, nil
}

func (m *MemFS) Copy(ctx context.Context, name, dest string, o *webdav.CopyOptions) (bool, error) {
	return m.copyMove("Copy", name, dest, o.NoRecursive, o.NoOverwrite)
}

func (m *MemFS) Move(ctx context.Context, name, dest string, o *webdav.MoveOptions) (bool, error) {
	return m.copyMove("Move", name, dest, false, o.NoOverwrite)
}

// ---- executor glue ---------------------------------------------------------------

func (ex *executor) mem() *MemFS {
	m, _ := ex.fs.(*MemFS)
	return m
}

func (ex *executor) newMemFS() webdav.FileSystem {
	m := NewMemFS(ex.plan.Config.MemfsSeed)
	if ex.plan.Profile == "conditional-memfs" {
		m.UniqueTags, m.Conditional = true, true
	}
	return m
}

func (ex *executor) memSetup(op SetupOp) {
	m := ex.mem()
	switch {
	case op.Mkcol != "":
		m.nodes[op.Mkcol] = &memNode{info: webdav.FileInfo{Path: op.Mkcol, IsDir: true, ModTime: exoticTime(m.rng)}}
	case op.Put != "":
		n := &memNode{data: op.Data}
		n.info = m.meta(op.Put, op.Data)
		m.nodes[op.Put] = n
	}
}

func (ex *executor) memSnapshot() map[string]model.Entry {
	s := map[string]model.Entry{}
	for p, n := range ex.mem().nodes {
		s[p] = model.Entry{Dir: n.info.IsDir, Data: n.data}
	}
	return s
}

func (ex *executor) streamFaultFired() bool {
	m := ex.mem()
	return m != nil && m.streamFired
}

// memBegin marks the start of an API call in the backend's record.
func (ex *executor) memBegin() {
	if m := ex.mem(); m != nil {
		m.mark = len(m.recs)
	}
}

// memLast returns the last record of op since memBegin (nil for other stores).
func (ex *executor) memLast(op string) *memRecord {
	m := ex.mem()
	if m == nil {
		return nil
	}
	for i := len(m.recs) - 1; i >= m.mark; i-- {
		if m.recs[i].Op == op {
			return &m.recs[i]
		}
	}
	return nil
}
