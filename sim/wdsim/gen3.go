//go:build go1.25

package wdsim

import (
	"strings"

	"github.com/emersion/go-webdav/vsim/model"
	"github.com/emersion/go-webdav/vsim/rt"
)

var apiFns = []string{"Stat", "ReadDir", "Open", "Create", "Mkdir", "RemoveAll", "Copy", "Move"}

var memNames = []string{"a", "b", "a b", "p%q", "h#h", "q?q", "s;s", "x+y", "q\"q", "<&>", "ü", ".dot", "é.txt", "a:b", "w\\x", "x=y&z", "it's", "%41", "a%2fb", "日本", " lead", "trail ", "new\nline", "tab\t", "\xff", "{}|^`", "[x]", "@!$*(),"}

// apiName spells a resource path as an API name for a client whose endpoint
// path is ep: absolute, or relative to ep when the resource lies below it.
func (g *gen) apiName(p, ep string) string {
	base := strings.TrimSuffix(ep, "/")
	rel := ""
	canRel := false
	if base == "" {
		canRel, rel = p != "/", strings.TrimPrefix(p, "/")
	} else if p == base {
		canRel, rel = true, ""
	} else if strings.HasPrefix(p, base+"/") {
		canRel, rel = true, strings.TrimPrefix(p, base+"/")
	}
	if canRel && g.r.Chance(0.6) {
		// a relative name starting with "/" would be absolute; and "" means the endpoint itself
		if !strings.HasPrefix(rel, "/") {
			switch g.r.Intn(10) {
			case 0:
				if rel != "" {
					return "./" + rel
				}
			case 1:
				if rel != "" {
					return rel + "/"
				}
			case 2:
				if rel != "" {
					return "zz/../" + rel
				}
			}
			return rel
		}
	}
	if g.r.Chance(0.1) && p != "/" {
		return p + "/"
	}
	return p
}

// GenC05 drives the public webdav.Client API against the real handler and one
// of two stores.
func GenC05(seed uint64, tier string) *Plan {
	g := newGen(seed, tier, "C05", "api-clients")
	cfg := &g.plan.Config
	cfg.Judge = true
	if g.r.Chance(0.45) {
		cfg.Store = "memfs"
		cfg.MemfsSeed = g.r.Uint64()
		cfg.Judge = false
		// arbitrary names for the synthetic store
		n := 3 + g.r.Intn(5)
		g.names = []string{"a"}
		for len(g.names) < n {
			c := rt.Pick(g.r, memNames)
			if g.r.Chance(0.35) {
				c = randomName(g.r)
			}
			dup := false
			for _, x := range g.names {
				dup = dup || x == c
			}
			if !dup {
				g.names = append(g.names, c)
			}
		}
	}
	ep := rt.Pick(g.r, []string{"", "/", "/sub", "/sub/", "/sub/deep", "/s p/"})
	cfg.Endpoint = "http://dav.test" + strings.ReplaceAll(ep, " ", "%20")
	if g.r.Chance(0.1) {
		cfg.Endpoint = "http://user:pw@dav.test:8080" + strings.ReplaceAll(ep, " ", "%20")
	}
	// the endpoint collection exists
	cur := ""
	for _, s := range strings.Split(strings.Trim(ep, "/"), "/") {
		if s == "" {
			continue
		}
		cur += "/" + s
		g.plan.Setup = append(g.plan.Setup, SetupOp{Mkcol: cur})
		g.j.T.Mkcol(cur)
	}
	g.genSetup()
	// a few resources below the endpoint, so relative names have something to name
	base := strings.TrimSuffix(ep, "/")
	if base != "" {
		for i := 0; i < 1+g.r.Intn(3); i++ {
			p := model.Join(base, rt.Pick(g.r, g.names))
			if g.j.T.N[p] != nil {
				continue
			}
			if g.r.Chance(0.4) {
				g.plan.Setup = append(g.plan.Setup, SetupOp{Mkcol: p})
				g.j.T.Mkcol(p)
			} else {
				d := g.content()
				g.plan.Setup = append(g.plan.Setup, SetupOp{Put: p, Data: d})
				g.j.T.PutFile(p, d)
			}
		}
	}
	n := g.stepCount()
	if n > 30 {
		n = 30
	}
	w := make([]int, len(apiFns))
	for i := range w {
		w[i] = 1 + g.r.Intn(5)
	}
	reconfAt := -1
	if cfg.Store == "memfs" && g.r.Chance(0.1) {
		reconfAt = 1 + g.r.Intn(n)
	}
	for i := 0; i < n; i++ {
		if i == reconfAt {
			// an operator points the running handler at another backend
			g.plan.Steps = append(g.plan.Steps, Step{Kind: "reconfigure", DelayNS: 1000})
		}
		fn := apiFns[g.r.Weighted(w)]
		a := &APICall{Fn: fn}
		st := &Step{Client: g.r.Intn(cfg.Clients), DelayNS: g.delay(), API: a}
		var mr *model.Request
		pickExisting := func(kind string) string {
			if g.r.Chance(0.85) {
				return g.pickPath(kind)
			}
			return g.anyTarget()
		}
		switch fn {
		case "Stat":
			a.Name = g.apiName(pickExisting("existing"), ep)
		case "ReadDir":
			a.Name = g.apiName(pickExisting("dir"), ep)
			a.Recursive = g.r.Chance(0.5)
		case "Open":
			a.Name = g.apiName(pickExisting("file"), ep)
			if cfg.Store == "memfs" && g.r.Chance(0.15) {
				// the backend's own data stream breaks part-way
				st.Faults = []Fault{{Seam: "backend-stream", At: g.r.Intn(5000), Kind: "custom-error"}}
			}
		case "Create":
			p := g.pickPath("missing")
			if g.r.Chance(0.4) {
				p = g.pickPath("file")
			} else if g.r.Chance(0.1) {
				p = g.anyTarget()
			}
			a.Name = g.apiName(p, ep)
			a.Data = g.content()
			for rest := len(a.Data); rest > 0 && len(a.Writes) < 6; {
				k := 1 + g.r.Intn(rest)
				if g.r.Chance(0.2) {
					k = 0
				}
				a.Writes = append(a.Writes, k)
				rest -= k
			}
			mr = &model.Request{Method: "PUT", Path: resolveName(ep, a.Name), H: map[string]string{}, Body: a.Data}
		case "Mkdir":
			p := g.pickPath("missing")
			if g.r.Chance(0.2) {
				p = g.anyTarget()
			}
			a.Name = g.apiName(p, ep)
			mr = &model.Request{Method: "MKCOL", Path: resolveName(ep, a.Name), H: map[string]string{}}
		case "RemoveAll":
			p := pickExisting("existing")
			if p == "/" || p == base || model.IsAncestor(p, base) {
				p = g.pickPath("missing")
			}
			a.Name = g.apiName(p, ep)
			mr = &model.Request{Method: "DELETE", Path: resolveName(ep, a.Name), H: map[string]string{}}
		case "Copy", "Move":
			src := pickExisting("existing")
			if fn == "Move" && (src == base || model.IsAncestor(src, base)) {
				src = g.pickPath("missing")
			}
			dst := g.pickPath("missing")
			if g.r.Chance(0.35) {
				dst = g.pickPath("existing")
			}
			if dst == base || model.IsAncestor(dst, base) {
				dst = g.pickPath("missing")
			}
			a.Name, a.Dest = g.apiName(src, ep), g.apiName(dst, ep)
			a.NoOverwrite = g.r.Chance(0.4)
			a.NoRecursive = fn == "Copy" && g.r.Chance(0.3)
			a.NilOptions = g.r.Chance(0.2)
			h := map[string]string{"Destination": canonicalTarget(resolveName(ep, a.Dest)), "Overwrite": "T"}
			if a.NoOverwrite && !a.NilOptions {
				h["Overwrite"] = "F"
			}
			if fn == "Copy" {
				h["Depth"] = "infinity"
				if a.NoRecursive && !a.NilOptions {
					h["Depth"] = "0"
				}
			}
			mr = &model.Request{Method: strings.ToUpper(fn), Path: resolveName(ep, a.Name), H: h}
		}
		g.plan.Steps = append(g.plan.Steps, *st)
		if mr != nil {
			g.j.Advance(mr)
		}
	}
	return g.plan
}
