//go:build go1.25

package wdsim

import (
	"crypto/sha256"
	"fmt"
	realos "os"
	realfp "path/filepath"
	"sort"
	"strings"
	"sync"
	"syscall"
	"time"

	"github.com/emersion/go-webdav/vsim/model"
	"github.com/emersion/go-webdav/vsim/rt"
	"github.com/emersion/go-webdav/vsim/simos"
)

var epoch = time.Date(2000, 1, 1, 0, 0, 0, 0, time.UTC)

// Log is the event log of a run. Logging never draws from a PRNG and never
// reads the real clock (time.Now is the bubble's fake clock).
type Log struct {
	mu    sync.Mutex
	Lines []string
	sb    string // sandbox prefix, replaced by $SB so logs do not depend on the pid
	// names the library chose for files of its own (seen by inode number, see
	// overlap.go): it may pick them at random, so lines showing them are
	// marked and not hashed
	partial []string
}

func (l *Log) Addf(format string, a ...interface{}) {
	rt.Tick()
	s := fmt.Sprintf(format, a...)
	if l.sb != "" {
		// the sandbox path depends on the process id: keep it (and fragments of
		// it that survive path normalisation) out of the log
		s = strings.ReplaceAll(s, l.sb, "$SB")
		s = strings.ReplaceAll(s, strings.TrimPrefix(l.sb, "/"), "$SB")
		for i, c := range strings.Split(l.sb, "/") {
			if len(c) > 3 && c != "Zq7RootZq7" {
				s = strings.ReplaceAll(s, c, fmt.Sprintf("$P%d", i))
			}
		}
	}
	for _, n := range l.partial {
		if strings.Contains(s, n) {
			s = strings.ReplaceAll(s, n, "$PARTIAL("+n+")")
		}
	}
	l.mu.Lock()
	l.Lines = append(l.Lines, fmt.Sprintf("t=+%d %s", time.Since(epoch).Nanoseconds(), s))
	l.mu.Unlock()
}

func (l *Log) Hash() string {
	h := sha256.New()
	for _, s := range l.Lines {
		// Disk-call lines carry file names the library is free to choose at
		// random (temporary files): they are shown, not hashed. Everything the
		// properties speak about (requests, answers, results, violations) is.
		if strings.Contains(s, " disk ") || strings.Contains(s, "$PARTIAL(") {
			continue
		}
		h.Write([]byte(s))
		h.Write([]byte{'\n'})
	}
	return fmt.Sprintf("%x", h.Sum(nil))
}

var errnoByName = map[string]syscall.Errno{
	"EACCES":       syscall.EACCES,
	"EPERM":        syscall.EPERM,
	"EIO":          syscall.EIO,
	"ENOSPC":       syscall.ENOSPC,
	"EROFS":        syscall.EROFS,
	"EMFILE":       syscall.EMFILE,
	"ENAMETOOLONG": syscall.ENAMETOOLONG,
	"EBUSY":        syscall.EBUSY,
	"EXDEV":        syscall.EXDEV,
	"ENOTEMPTY":    syscall.ENOTEMPTY,
	"EDQUOT":       syscall.EDQUOT,
	"ENOENT":       syscall.ENOENT,
	"EEXIST":       syscall.EEXIST,
	"ENOTDIR":      syscall.ENOTDIR,
	"EISDIR":       syscall.EISDIR,
	"EINTR":        syscall.EINTR,
	"ETIMEDOUT":    syscall.ETIMEDOUT,
}

var errnoNames = func() []string {
	var s []string
	for k := range errnoByName {
		s = append(s, k)
	}
	sort.Strings(s)
	return s
}()

// SeamCall is the record of one call that reached the disk seam in a step.
type SeamCall struct {
	Fn, Op, Path, Path2 string
	Writable            bool
	N                   int    // bytes really read/written
	Injected            string // errno name when a fault was injected here
	Err                 string
}

// DiskSeam implements simos.Seam for the sequential engine: confinement
// monitor, fault plan, logging and modification-time stamping from the fake
// clock.
type DiskSeam struct {
	Sandbox, Root string
	Log           *Log
	Stamp         bool

	ordinal int
	faults  map[int]*Fault
	Calls   []SeamCall        // calls of the current step
	Outside []string          // confinement breaches of the current step
	Fired   []*Fault          // faults that fired in the current step
	Yield   func(*simos.Call) // optional scheduling point (concurrent engine)

	// the client goes away (the request context is cancelled) just before the
	// CancelAt-th file-system call of the step; -1: never
	CancelAt  int
	Cancel    func()
	Cancelled bool

	// Park, when set, parks the calling request just before the call with this
	// ordinal (overlap.go: a reader between two of its file-system calls while
	// other requests are served). It survives BeginStep and clears itself.
	Park *seamGate
}

type seamGate struct {
	at       int
	stalled  chan struct{}
	release  chan struct{}
	ordinalA int
}

func (d *DiskSeam) BeginStep(faults []Fault) {
	d.ordinal = 0
	d.faults = nil
	d.CancelAt, d.Cancel, d.Cancelled = -1, nil, false
	for i := range faults {
		if faults[i].Seam == "ctx" && faults[i].Kind == "at-call" {
			d.CancelAt = faults[i].At
		}
	}
	d.Calls = d.Calls[:0]
	d.Outside = nil
	d.Fired = nil
	for i := range faults {
		f := &faults[i]
		if f.Seam == "disk" {
			if d.faults == nil {
				d.faults = map[int]*Fault{}
			}
			d.faults[f.At] = f
		}
	}
}

func within(dir, p string) bool {
	return p == dir || strings.HasPrefix(p, dir+string(realfp.Separator))
}

func (d *DiskSeam) Before(c *simos.Call) *simos.Inject {
	rt.Tick()
	if d.Yield != nil {
		d.Yield(c)
	}
	j := d.ordinal
	d.ordinal++
	if g := d.Park; g != nil && j == g.at {
		d.Park = nil
		close(g.stalled)
		<-g.release
	}
	if j == d.CancelAt && d.Cancel != nil && !d.Cancelled {
		d.Cancelled = true
		d.Cancel()
	}
	rec := SeamCall{Fn: c.Fn, Op: c.Op, Path: c.Path, Path2: c.Path2, Writable: c.Writable}
	block := false
	for _, p := range []string{c.Path, c.Path2} {
		if p == "" {
			continue
		}
		cp := p
		if !realfp.IsAbs(cp) {
			if abs, err := realfp.Abs(cp); err == nil {
				cp = abs
			}
		}
		cp = realfp.Clean(cp)
		if !within(d.Root, cp) {
			d.Outside = append(d.Outside, fmt.Sprintf("%s(%q)", c.Fn, p))
			if !within(d.Sandbox, cp) {
				block = true // never let a breach reach anything real
			}
		}
	}
	if block {
		rec.Injected = "EPERM(blocked: outside the sandbox)"
		d.Calls = append(d.Calls, rec)
		return &simos.Inject{Errno: syscall.EPERM, Short: -1}
	}
	if f := d.faults[j]; f != nil {
		if f.Kind == "short-write" {
			if c.Op != "write" {
				d.Calls = append(d.Calls, rec)
				return nil
			}
			f.Note = fmt.Sprintf("%s short=%d ENOSPC", c.Fn, f.Arg)
			d.Fired = append(d.Fired, f)
			rec.Injected = "short-write+ENOSPC"
			d.Calls = append(d.Calls, rec)
			return &simos.Inject{Errno: syscall.ENOSPC, Short: f.Arg}
		}
		if e, ok := errnoByName[f.Kind]; ok {
			if f.Kind == "EXDEV" && c.Op != "rename" && c.Op != "link" {
				d.Calls = append(d.Calls, rec)
				return nil
			}
			f.Note = c.Fn
			f.Op = c.Op
			d.Fired = append(d.Fired, f)
			rec.Injected = f.Kind
			d.Calls = append(d.Calls, rec)
			return &simos.Inject{Errno: e, Short: -1}
		}
	}
	d.Calls = append(d.Calls, rec)
	return nil
}

func (d *DiskSeam) After(c *simos.Call, err error) {
	if n := len(d.Calls); n > 0 {
		d.Calls[n-1].N = c.N
		if c.Path != "" {
			d.Calls[n-1].Path = c.Path // CreateTemp knows the name only now
		}
		if err != nil {
			d.Calls[n-1].Err = err.Error()
		}
	}
	if d.Log != nil {
		es := "ok"
		if err != nil {
			es = err.Error()
		}
		if c.Path2 != "" {
			d.Log.Addf("  disk %s %q -> %q: %s", c.Fn, c.Path, c.Path2, es)
		} else if c.Op == "read" || c.Op == "write" {
			d.Log.Addf("  disk %s %q n=%d: %s", c.Fn, c.Path, c.N, es)
		} else {
			d.Log.Addf("  disk %s %q: %s", c.Fn, c.Path, es)
		}
	}
	if !d.Stamp || !c.Writable {
		return
	}
	// Modification times come from the fake clock, so entity tags and
	// Last-Modified are a function of the seed, not of the host's clock.
	// (bytes written through a handle are stamped by the shim itself, through
	// the descriptor: StampTime below)
	switch c.Op {
	case "open", "truncate", "mkdir":
		if err == nil {
			now := time.Now()
			p := c.Path
			if !realfp.IsAbs(p) {
				if abs, err := realfp.Abs(p); err == nil {
					p = abs
				}
			}
			if within(d.Sandbox, realfp.Clean(p)) {
				realos.Chtimes(p, now, now)
			}
		}
	}
}

// StampTime implements simos.Stamper.
func (d *DiskSeam) StampTime() (time.Time, bool) { return time.Now(), d.Stamp }

// Snapshot reads the stored tree below root with the real os package.
func Snapshot(root string) map[string]model.Entry {
	snap := map[string]model.Entry{}
	var walk func(dir, rel string)
	walk = func(dir, rel string) {
		ents, err := realos.ReadDir(dir)
		if err != nil {
			return
		}
		for _, e := range ents {
			p := model.Join(rel, e.Name())
			full := realfp.Join(dir, e.Name())
			fi, err := realos.Lstat(full)
			if err != nil {
				continue
			}
			if fi.IsDir() {
				snap[p] = model.Entry{Dir: true}
				walk(full, p)
			} else {
				b, _ := realos.ReadFile(full)
				snap[p] = model.Entry{Data: b}
			}
		}
	}
	fi, err := realos.Lstat(root)
	if err != nil {
		return snap
	}
	if !fi.IsDir() {
		b, _ := realos.ReadFile(root)
		snap["/"] = model.Entry{Data: b}
		return snap
	}
	snap["/"] = model.Entry{Dir: true}
	walk(root, "/")
	return snap
}

// OutsideListing describes everything in the sandbox that is not below the
// served root: names, kinds, content hashes.
func OutsideListing(sandbox, root string) string {
	var lines []string
	realfp.Walk(sandbox, func(p string, fi realos.FileInfo, err error) error {
		if err != nil {
			return nil
		}
		if p == root {
			if fi.IsDir() {
				return realfp.SkipDir
			}
			return nil
		}
		rel, _ := realfp.Rel(sandbox, p)
		if fi.IsDir() {
			lines = append(lines, "d "+rel)
		} else {
			b, _ := realos.ReadFile(p)
			lines = append(lines, fmt.Sprintf("f %s %x", rel, sha256.Sum256(b)))
		}
		return nil
	})
	sort.Strings(lines)
	return strings.Join(lines, "\n")
}

// World is the sandbox of one run.
type World struct {
	Sandbox string
	Root    string
	outside string
}

// NewWorld creates sandbox/{canary, sibling/, <root>-evil/, <root>/} under base.
func NewWorld(base, rootName string) (*World, error) {
	// one fixed directory per worker process: runs are sequential, and a
	// re-execution of a plan sees exactly the same paths
	// (the directory's name pads the sandbox path to a fixed length, so that
	// where PATH_MAX falls in a deep tree does not depend on the worker's pid
	// or index)
	name := "wrld"
	if n := len(base) + 1 + len(name); n < 64 {
		name += strings.Repeat("_", 64-n)
	}
	sb := realfp.Join(base, name)
	realos.RemoveAll(sb)
	if err := realos.MkdirAll(sb, 0o755); err != nil {
		return nil, err
	}
	w := &World{Sandbox: sb, Root: realfp.Join(sb, rootName)}
	mk := func(p string) { realos.MkdirAll(realfp.Join(sb, p), 0o755) }
	wr := func(p, data string) { realos.WriteFile(realfp.Join(sb, p), []byte(data), 0o644) }
	mk(rootName)
	mk("sibling")
	mk(rootName + "-evil")
	wr("canary.txt", "parent canary")
	wr("sibling/secret.txt", "sibling canary")
	wr(rootName+"-evil/x.txt", "prefix canary")
	wr(rootName+".bak", "suffix canary")
	w.outside = OutsideListing(sb, w.Root)
	return w, nil
}

// OutsideChanged reports whether anything next to or above the root changed.
func (w *World) OutsideChanged() (string, bool) {
	now := OutsideListing(w.Sandbox, w.Root)
	if now != w.outside {
		return fmt.Sprintf("before:\n%s\nafter:\n%s", w.outside, now), true
	}
	return "", false
}

func (w *World) Close() { realos.RemoveAll(w.Sandbox) }
