//go:build go1.25

package wdsim

import (
	webdav "github.com/emersion/go-webdav"
	"github.com/emersion/go-webdav/vsim/model"
)

type apiState struct{}

func (ex *executor) apiStep(idx int, st *Step)           {}
func (ex *executor) newMemFS() webdav.FileSystem         { return nil }
func (ex *executor) memSetup(op SetupOp)                 {}
func (ex *executor) memSnapshot() map[string]model.Entry { return nil }
