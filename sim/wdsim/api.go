//go:build go1.25

package wdsim

import (
	"bufio"
	"bytes"
	"context"
	"fmt"
	"io"
	"net/http"
	"net/http/httptest"
	"runtime/debug"
	"sort"
	"strings"
	"time"

	webdav "github.com/emersion/go-webdav"
	"github.com/emersion/go-webdav/vsim/model"
)

// ---- transport, mode D -----------------------------------------------------------

// seqTransport is the simulated wire of the sequential engine: an
// http.RoundTripper (wrapped in a real http.Client, so redirect handling is
// real) that re-parses the request the way net/http's server would read it
// and calls the handler in the calling goroutine.
type seqTransport struct {
	ex      *executor
	idx     int
	intent  []byte      // bytes the caller means to upload (Create), for the oracles
	seen    []*Exchange // exchanges of the current API call
	lastReq *http.Request
}

// serverRequest turns a client request into what the server side would see.
func serverRequest(creq *http.Request) (*http.Request, error) {
	hdr := creq.Clone(creq.Context())
	hdr.Body = nil
	hdr.ContentLength = 0
	hdr.GetBody = nil
	var b bytes.Buffer
	if err := hdr.Write(&b); err != nil {
		return nil, err
	}
	sreq, err := http.ReadRequest(bufio.NewReader(&b))
	if err != nil {
		return nil, err
	}
	sreq.RemoteAddr = "192.0.2.1:1234"
	switch {
	case creq.Body == nil || creq.Body == http.NoBody:
		sreq.Body = http.NoBody
		sreq.ContentLength = 0
	case creq.ContentLength > 0:
		sreq.ContentLength = creq.ContentLength
		sreq.Header.Set("Content-Length", fmt.Sprint(creq.ContentLength))
	default:
		sreq.ContentLength = -1
		sreq.TransferEncoding = []string{"chunked"}
		sreq.Header.Del("Content-Length")
	}
	return sreq, nil
}

type teeBody struct {
	r   io.ReadCloser
	buf bytes.Buffer
	err error
}

func (t *teeBody) Read(p []byte) (int, error) {
	n, err := t.r.Read(p)
	t.buf.Write(p[:n])
	if err != nil && err != io.EOF {
		t.err = err
	}
	return n, err
}
func (t *teeBody) Close() error { return nil }

func (tr *seqTransport) RoundTrip(creq *http.Request) (*http.Response, error) {
	ex := tr.ex
	if creq.Body != nil {
		defer creq.Body.Close()
	}
	if err := creq.Context().Err(); err != nil {
		return nil, err
	}
	sreq, err := serverRequest(creq)
	if err != nil {
		return nil, fmt.Errorf("vsim transport: request cannot be put on the wire: %w", err)
	}
	sreq = sreq.WithContext(creq.Context())
	var tee *teeBody
	if creq.Body != nil && creq.Body != http.NoBody {
		tee = &teeBody{r: creq.Body}
		sreq.Body = tee
	}
	ex.seam.BeginStep(nil)
	xc := &Exchange{Req: model.Request{Method: sreq.Method, Path: sreq.URL.Path, H: headerMap(sreq)}}
	ex.log.Addf("  wire %s %q %v", sreq.Method, sreq.RequestURI, sortedHeader(sreq.Header))
	rec := httptest.NewRecorder()
	func() {
		defer func() {
			if r := recover(); r != nil {
				xc.Panic = fmt.Sprintf("%v\n%s", r, debug.Stack())
			}
		}()
		ex.h.ServeHTTP(rec, sreq)
	}()
	res := rec.Result()
	rb, _ := io.ReadAll(res.Body)
	if sreq.Method == "HEAD" || res.StatusCode == 204 || res.StatusCode == 304 {
		rb = nil
	}
	xc.Resp = model.Response{Status: res.StatusCode, H: res.Header, Body: rb}
	st := &Step{Client: -2, Method: sreq.Method, Target: sreq.RequestURI}
	for k, v := range sreq.Header {
		if len(v) > 0 {
			st.Headers = append(st.Headers, [2]string{k, v[len(v)-1]})
		}
	}
	sort.Slice(st.Headers, func(i, j int) bool { return st.Headers[i][0] < st.Headers[j][0] })
	if tee != nil {
		xc.Req.Body = append([]byte(nil), tee.buf.Bytes()...)
		st.Body = xc.Req.Body
		if tr.intent != nil {
			st.Body = tr.intent
		}
		if tee.err != nil {
			xc.Req.BodyBroken = true
		}
	}
	ex.res.Stats.ByMethod[st.Method]++
	ex.res.Stats.ByStatus[statusClass(xc.Resp.Status)]++
	ex.res.Stats.SeamCalls += len(ex.seam.Calls)
	ex.log.Addf("  -> %d %v body=%q", xc.Resp.Status, sortedHeader(xc.Resp.H), clipS(canonBody(&xc.Resp), 300))
	ex.last = xc
	ex.noteTag(xc)
	tr.seen = append(tr.seen, xc)
	tr.lastReq = sreq
	ex.judgeExchange(tr.idx, st, xc)

	if xc.Panic != "" {
		// what net/http does with a handler that panics: the connection is torn
		// down. Before anything was written the client sees no answer at all;
		// afterwards it sees the answer break off
		if len(rb) == 0 && !rec.Flushed {
			return nil, fmt.Errorf("vsim: the server closed the connection without an answer (its handler panicked): %w", io.ErrUnexpectedEOF)
		}
		return &http.Response{
			Status: fmt.Sprintf("%d %s", res.StatusCode, http.StatusText(res.StatusCode)), StatusCode: res.StatusCode,
			Proto: "HTTP/1.1", ProtoMajor: 1, ProtoMinor: 1, Header: res.Header.Clone(),
			Body: &FaultBody{Data: rb, Fault: &Fault{Seam: "resp", At: len(rb), Kind: "unexpected-eof"}}, ContentLength: -1, Request: creq,
		}, nil
	}
	out := &http.Response{
		Status: fmt.Sprintf("%d %s", res.StatusCode, http.StatusText(res.StatusCode)), StatusCode: res.StatusCode,
		Proto: "HTTP/1.1", ProtoMajor: 1, ProtoMinor: 1, Header: res.Header.Clone(),
		Body: framedBody(res.Header, rb, sreq.Method, res.StatusCode), ContentLength: -1, Request: creq,
	}
	return out, nil
}

// framedBody gives a response body the framing a real HTTP/1.1 exchange would
// impose: with an announced Content-Length, a handler that wrote fewer bytes
// makes the client see an unexpected EOF, and bytes beyond it are never sent.
// Without Content-Length the body simply ends (chunked / close-delimited).
func framedBody(h http.Header, rb []byte, method string, status int) io.ReadCloser {
	cl := h.Get("Content-Length")
	if cl == "" || method == "HEAD" || status == 204 || status == 304 {
		return io.NopCloser(bytes.NewReader(rb))
	}
	var n int
	if _, err := fmt.Sscanf(cl, "%d", &n); err != nil || n < 0 {
		return io.NopCloser(bytes.NewReader(rb))
	}
	if n < len(rb) {
		return io.NopCloser(bytes.NewReader(rb[:n]))
	}
	if n > len(rb) {
		return &FaultBody{Data: rb, Fault: &Fault{Seam: "resp", At: len(rb), Kind: "unexpected-eof"}}
	}
	return io.NopCloser(bytes.NewReader(rb))
}

// ---- API steps -------------------------------------------------------------------

type apiState struct {
	tr      *seqTransport
	clients map[string]*webdav.Client // by endpoint
}

func (ex *executor) client(endpoint string) (*webdav.Client, *seqTransport, error) {
	if ex.api == nil {
		ex.api = &apiState{tr: &seqTransport{ex: ex}, clients: map[string]*webdav.Client{}}
	}
	if c := ex.api.clients[endpoint]; c != nil {
		return c, ex.api.tr, nil
	}
	hc := &http.Client{Transport: ex.api.tr}
	c, err := webdav.NewClient(hc, endpoint)
	if err != nil {
		return nil, nil, err
	}
	ex.api.clients[endpoint] = c
	return c, ex.api.tr, nil
}

// resolveName is the model's own resolver of an API name against an endpoint
// path: absolute names stand for themselves, relative ones are appended to the
// endpoint path; then RFC 3986 normalisation.
func resolveName(endpointPath, name string) string {
	if strings.HasPrefix(name, "/") {
		return model.Normalise(name).Path
	}
	if endpointPath == "" {
		endpointPath = "/"
	}
	return model.Normalise(strings.TrimSuffix(endpointPath, "/") + "/" + name).Path
}

func endpointPath(endpoint string) string {
	ref := model.ParseRef(endpoint)
	if !ref.OK {
		return "/"
	}
	return ref.Path
}

func sameSecond(a, b time.Time) bool { return a.Unix() == b.Unix() }

// compareInfo: the client's FileInfo must equal the backend's own.
func (ex *executor) compareInfo(idx int, class, what string, got *webdav.FileInfo, want *webdav.FileInfo) {
	bad := func(field, msg string) {
		ex.finding(Violation{Prop: "C05", Clause: "stat:" + field, Class: class, Msg: fmt.Sprintf("%s %q: %s", what, want.Path, msg), Step: idx})
	}
	if got.Path != want.Path {
		bad("path", fmt.Sprintf("client reports path %q, backend %q", got.Path, want.Path))
	}
	if got.IsDir != want.IsDir {
		bad("kind", fmt.Sprintf("client reports collection=%v, backend %v", got.IsDir, want.IsDir))
		return
	}
	if want.IsDir {
		return
	}
	if got.Size != want.Size {
		bad("size", fmt.Sprintf("client reports size %d, backend %d", got.Size, want.Size))
	}
	if !sameSecond(got.ModTime, want.ModTime) && !(want.ModTime.IsZero() && got.ModTime.IsZero()) {
		bad("modtime", fmt.Sprintf("client reports %s, backend %s", got.ModTime.UTC().Format(time.RFC3339), want.ModTime.UTC().Format(time.RFC3339)))
	}
	if got.MIMEType != want.MIMEType {
		bad("mimetype", fmt.Sprintf("client reports %q, backend %q", got.MIMEType, want.MIMEType))
	}
	if got.ETag != want.ETag {
		bad("etag", fmt.Sprintf("client reports tag %q, backend %q", got.ETag, want.ETag))
	}
}

func errText(err error) string {
	if err == nil {
		return "nil"
	}
	return err.Error()
}

func (ex *executor) apiStep(idx int, st *Step) {
	a := st.API
	cfg := &ex.plan.Config
	c, tr, err := ex.client(cfg.Endpoint)
	if err != nil {
		ex.res.Infra = "cannot create client: " + err.Error()
		ex.stop = true
		return
	}
	tr.idx, tr.seen, tr.intent, tr.lastReq = idx, nil, nil, nil
	ctx := context.Background()
	epPath := endpointPath(cfg.Endpoint)
	want := resolveName(epPath, a.Name)
	class := "api " + a.Fn
	ex.res.Stats.Classes[class]++
	ex.log.Addf("step %d client=%d api %s(%q dest=%q rec=%v norec=%v noow=%v nilopt=%v) data=%dB writes=%v", idx, st.Client, a.Fn, a.Name, a.Dest, a.Recursive, a.NoRecursive, a.NoOverwrite, a.NilOptions, len(a.Data), a.Writes)
	bad := func(clause, msg string) {
		ex.finding(Violation{Prop: "C05", Clause: clause, Class: class, Msg: msg, Step: idx})
	}
	// the request must be addressed to exactly the named resource
	addressed := func() string {
		if tr.lastReq == nil {
			return ""
		}
		got := model.Normalise(tr.lastReq.URL.Path)
		if !got.OK || got.Path != want {
			bad("backend-args:"+a.Fn, fmt.Sprintf("%s(%q) with endpoint %q was sent to %q; the name resolves to %q", a.Fn, a.Name, cfg.Endpoint, tr.lastReq.URL.Path, want))
		}
		return tr.lastReq.URL.Path
	}
	ex.memBegin()
	if m := ex.mem(); m != nil {
		m.begin(st.Faults)
		m.streamFault, m.streamFired = nil, false
		for i := range st.Faults {
			if st.Faults[i].Seam == "backend-stream" {
				m.streamFault = &st.Faults[i]
			}
		}
	}
	nt := func(kind string) {
		ex.res.Stats.NT("C05|" + a.Fn + "|" + kind + "|" + nameClass(a.Name) + "|" + cfg.Store + "|" + cfg.Endpoint)
	}

	switch a.Fn {
	case "Stat":
		fi, err := c.Stat(ctx, a.Name)
		ex.log.Addf("  = %s err=%s", infoText(fi), errText(err))
		sp := addressed()
		bfi, berr := ex.fs.Stat(ctx, sp)
		switch {
		case err != nil && berr == nil:
			bad("stat:error", fmt.Sprintf("Stat(%q) failed with %v although the backend has the resource", a.Name, err))
		case err == nil && berr != nil:
			bad("stat:error", fmt.Sprintf("Stat(%q) succeeded although the backend reports %v", a.Name, berr))
		case err == nil:
			ex.compareInfo(idx, class, "Stat", fi, bfi)
			nt(kindWord(bfi.IsDir))
		}
	case "ReadDir":
		l, err := c.ReadDir(ctx, a.Name, a.Recursive)
		ex.log.Addf("  = %d entries err=%s", len(l), errText(err))
		sp := addressed()
		bl, berr := ex.fs.ReadDir(ctx, sp, a.Recursive)
		if berr == nil {
			// the server answers for a non-collection with the resource itself
			if bfi, e := ex.fs.Stat(ctx, sp); e == nil && !bfi.IsDir {
				bl = []webdav.FileInfo{*bfi}
			}
		}
		switch {
		case err != nil && berr == nil:
			bad("readdir-set", fmt.Sprintf("ReadDir(%q) failed with %v although the backend lists %d entries", a.Name, err, len(bl)))
		case err == nil && berr != nil:
			if _, e := ex.fs.Stat(ctx, sp); e != nil {
				bad("readdir-set", fmt.Sprintf("ReadDir(%q) succeeded although the backend reports %v", a.Name, berr))
			}
		case err == nil:
			wantBy := map[string]*webdav.FileInfo{}
			for i := range bl {
				wantBy[bl[i].Path] = &bl[i]
			}
			seen := map[string]bool{}
			for i := range l {
				g := &l[i]
				if seen[g.Path] {
					bad("readdir-duplicate", fmt.Sprintf("ReadDir(%q): %q is listed twice", a.Name, g.Path))
					continue
				}
				seen[g.Path] = true
				w := wantBy[g.Path]
				if w == nil {
					bad("readdir-set", fmt.Sprintf("ReadDir(%q) lists %q, which the backend does not list (backend: %v)", a.Name, g.Path, keysOf(wantBy)))
					continue
				}
				ex.compareInfo(idx, class, "ReadDir entry", g, w)
				// the path must address the same resource again
				if rfi, e := ex.fs.Stat(ctx, g.Path); e != nil || rfi.IsDir != w.IsDir {
					bad("path-not-readdressable", fmt.Sprintf("ReadDir(%q) lists %q, but that path does not address the resource again (%v)", a.Name, g.Path, e))
				}
			}
			for p := range wantBy {
				if !seen[p] {
					bad("readdir-set", fmt.Sprintf("ReadDir(%q, recursive=%v) does not list %q", a.Name, a.Recursive, p))
				}
			}
			if len(bl) > 1 {
				nt(fmt.Sprintf("n=%d,rec=%v", min(len(bl), 5), a.Recursive))
			}
		}
	case "Open":
		rc, err := c.Open(ctx, a.Name)
		var data []byte
		var rerr error
		if err == nil {
			data, rerr = io.ReadAll(rc)
			rc.Close()
		}
		ex.log.Addf("  = %d bytes err=%s readerr=%s", len(data), errText(err), errText(rerr))
		sp := addressed()
		bfi, berr := ex.fs.Stat(ctx, sp)
		switch {
		case berr == nil && !bfi.IsDir && ex.mem() != nil && bfi.Size != int64(len(ex.mem().nodes[model.Normalise(sp).Path].data)):
			// the backend announces a size its stream does not have: whatever the
			// client makes of that is not the library's doing
			ex.probe("open-of-a-file-with-metadata-only-size")
		case berr != nil || bfi.IsDir:
			if err == nil {
				bad("open-bytes", fmt.Sprintf("Open(%q) succeeded although the backend has no such file", a.Name))
			}
		case (err != nil || rerr != nil) && ex.streamFaultFired():
			// the backend's own stream broke: failing is the right outcome
			ex.probe("open-failed-after-backend-stream-fault")
		case err != nil || rerr != nil:
			bad("open-bytes", fmt.Sprintf("Open(%q) failed (%v / %v) although the backend has the file", a.Name, err, rerr))
		default:
			if m := ex.mem(); m != nil {
				m.directCall = true
			}
			brc, e := ex.fs.Open(ctx, sp)
			if m := ex.mem(); m != nil {
				m.directCall = false
			}
			if e == nil {
				bdata, _ := io.ReadAll(brc)
				brc.Close()
				if !bytes.Equal(bdata, data) {
					bad("open-bytes", fmt.Sprintf("Open(%q) returned %d bytes %q, the backend holds %d bytes %q", a.Name, len(data), clipS(string(data), 24), len(bdata), clipS(string(bdata), 24)))
				}
				nt(fmt.Sprintf("size=%d", sizeBucket(len(bdata))))
			}
		}
	case "Create":
		tr.intent = a.Data
		before := ex.snap
		wc, err := c.Create(ctx, a.Name)
		var werr, cerr error
		written := 0
		if err == nil {
			off := 0
			for _, n := range a.Writes {
				if off+n > len(a.Data) {
					n = len(a.Data) - off
				}
				m, e := wc.Write(a.Data[off : off+n])
				written += m
				off += n
				if e != nil {
					werr = e
					break
				}
			}
			if werr == nil && off < len(a.Data) {
				m, e := wc.Write(a.Data[off:])
				written += m
				werr = e
			}
			cerr = wc.Close()
		}
		ex.log.Addf("  = create err=%s write err=%s (%d bytes) close err=%s", errText(err), errText(werr), written, errText(cerr))
		sp := addressed()
		if err == nil && cerr == nil && werr == nil {
			brc, e := ex.fs.Open(ctx, sp)
			if e != nil {
				bad("create-bytes", fmt.Sprintf("Create(%q) + Close succeeded but the backend cannot open the file: %v", a.Name, e))
			} else {
				bdata, _ := io.ReadAll(brc)
				brc.Close()
				if !bytes.Equal(bdata, a.Data) {
					bad("create-bytes", fmt.Sprintf("Create(%q): wrote %d bytes %q, the backend stores %d bytes %q", a.Name, len(a.Data), clipS(string(a.Data), 24), len(bdata), clipS(string(bdata), 24)))
				}
				nt(fmt.Sprintf("size=%d,writes=%d", sizeBucket(len(a.Data)), min(len(a.Writes), 4)))
			}
		} else if err == nil && cerr == nil && werr != nil {
			bad("create-bytes", fmt.Sprintf("Create(%q): Write failed with %v but Close reported success", a.Name, werr))
		} else if cfg.Store != "memfs" {
			if d := model.DiffSnap(before, ex.snapshot()); d != "" {
				bad("create-bytes", fmt.Sprintf("Create(%q) reported failure (%v) but the stored tree changed: %s", a.Name, cerr, d))
			}
		}
		if rec := ex.memLast("Create"); rec != nil && rec.Name != sp {
			bad("backend-args:Create", fmt.Sprintf("backend Create received name %q, the request addressed %q", rec.Name, sp))
		}
	case "Mkdir":
		err := c.Mkdir(ctx, a.Name)
		ex.log.Addf("  = err=%s", errText(err))
		sp := addressed()
		ex.apiOutcome(idx, class, a, err, tr)
		if rec := ex.memLast("Mkdir"); rec != nil && rec.Name != sp {
			bad("backend-args:Mkdir", fmt.Sprintf("backend Mkdir received %q, the request addressed %q", rec.Name, sp))
		}
		if err == nil {
			nt("ok")
		}
	case "RemoveAll":
		err := c.RemoveAll(ctx, a.Name)
		ex.log.Addf("  = err=%s", errText(err))
		sp := addressed()
		ex.apiOutcome(idx, class, a, err, tr)
		if rec := ex.memLast("RemoveAll"); rec != nil && rec.Name != sp {
			bad("backend-args:RemoveAll", fmt.Sprintf("backend RemoveAll received %q, the request addressed %q", rec.Name, sp))
		}
		if err == nil {
			nt("ok")
		}
	case "Copy", "Move":
		var err error
		wantDest := resolveName(epPath, a.Dest)
		if a.Fn == "Copy" {
			var o *webdav.CopyOptions
			if !a.NilOptions {
				o = &webdav.CopyOptions{NoRecursive: a.NoRecursive, NoOverwrite: a.NoOverwrite}
			}
			err = c.Copy(ctx, a.Name, a.Dest, o)
		} else {
			var o *webdav.MoveOptions
			if !a.NilOptions {
				o = &webdav.MoveOptions{NoOverwrite: a.NoOverwrite}
			}
			err = c.Move(ctx, a.Name, a.Dest, o)
		}
		ex.log.Addf("  = err=%s", errText(err))
		sp := addressed()
		ex.apiOutcome(idx, class, a, err, tr)
		noRec := a.NoRecursive && !a.NilOptions && a.Fn == "Copy"
		noOw := a.NoOverwrite && !a.NilOptions
		if tr.lastReq != nil {
			// options on the wire
			h := tr.lastReq.Header
			if ow := h.Get("Overwrite"); (ow == "F") != noOw || (ow != "T" && ow != "F" && ow != "") {
				bad("backend-args:"+a.Fn, fmt.Sprintf("%s(no-overwrite=%v) sent Overwrite: %q", a.Fn, noOw, ow))
			}
			if d := h.Get("Depth"); a.Fn == "Copy" && ((d == "0") != noRec || (d != "0" && d != "infinity" && d != "")) {
				bad("backend-args:"+a.Fn, fmt.Sprintf("Copy(no-recursive=%v) sent Depth: %q", noRec, d))
			}
			ref := model.ParseRef(h.Get("Destination"))
			if dn := model.Normalise(ref.Path); !ref.OK || !dn.OK || dn.Path != wantDest {
				bad("backend-args:"+a.Fn, fmt.Sprintf("%s(dest=%q) with endpoint %q sent Destination %q; the name resolves to %q", a.Fn, a.Dest, cfg.Endpoint, h.Get("Destination"), wantDest))
			}
		}
		if rec := ex.memLast(a.Fn); rec != nil {
			if len(rec.Dest) > 1 && strings.HasSuffix(rec.Dest, "/") && !strings.HasSuffix(a.Dest, "/") {
				bad("backend-args:"+a.Fn, fmt.Sprintf("backend %s received the destination %q with a trailing slash the caller did not write (%q)", a.Fn, rec.Dest, a.Dest))
			}
			if rec.Name != sp || model.Normalise(rec.Dest).Path != wantDest || rec.NoOverwrite != noOw || (a.Fn == "Copy" && rec.NoRecursive != noRec) {
				bad("backend-args:"+a.Fn, fmt.Sprintf("backend %s received (%q, %q, no-recursive=%v, no-overwrite=%v); the caller asked for (%q = %q, %q = %q, no-recursive=%v, no-overwrite=%v)", a.Fn, rec.Name, rec.Dest, rec.NoRecursive, rec.NoOverwrite, a.Name, sp, a.Dest, wantDest, noRec, noOw))
			}
		}
		if err == nil {
			nt(fmt.Sprintf("norec=%v,noow=%v,nil=%v", a.NoRecursive, a.NoOverwrite, a.NilOptions))
		}
	}
}

// apiOutcome: a mutating call returns nil iff the server answered 2xx.
func (ex *executor) apiOutcome(idx int, class string, a *APICall, err error, tr *seqTransport) {
	if len(tr.seen) == 0 {
		return
	}
	st := tr.seen[len(tr.seen)-1].Resp.Status
	if (err == nil) != (st/100 == 2) {
		ex.finding(Violation{Prop: "C05", Clause: "result", Class: class, Msg: fmt.Sprintf("%s(%q) returned %v but the server answered %d", a.Fn, a.Name, err, st), Step: idx})
	}
}

func kindWord(dir bool) string {
	if dir {
		return "coll"
	}
	return "file"
}

func sizeBucket(n int) int {
	switch {
	case n == 0:
		return 0
	case n < 64:
		return 1
	case n < 4096:
		return 2
	case n < 32768:
		return 3
	case n == 32768:
		return 4
	}
	return 5
}

func nameClass(n string) string {
	var cs []string
	if strings.HasPrefix(n, "/") {
		cs = append(cs, "abs")
	} else {
		cs = append(cs, "rel")
	}
	for _, c := range []string{" ", "%", "#", "?", ";", "+", "\"", "<", "&", "\\", ":", "'", "\n", ".."} {
		if strings.Contains(n, c) {
			cs = append(cs, c)
		}
	}
	for _, r := range n {
		if r > 127 {
			cs = append(cs, "u")
			break
		}
	}
	return strings.Join(cs, "")
}

func infoText(fi *webdav.FileInfo) string {
	if fi == nil {
		return "<nil>"
	}
	return fmt.Sprintf("{%q dir=%v size=%d mod=%s type=%q tag=%q}", fi.Path, fi.IsDir, fi.Size, fi.ModTime.UTC().Format(time.RFC3339), fi.MIMEType, fi.ETag)
}

func keysOf(m map[string]*webdav.FileInfo) []string {
	var ks []string
	for k := range m {
		ks = append(ks, k)
	}
	sort.Strings(ks)
	return ks
}
