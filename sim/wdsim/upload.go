//go:build go1.25

package wdsim

import (
	"bytes"
	"context"
	"errors"
	"fmt"
	"io"
	"net/http"
	"net/http/httptest"
	realos "os"
	realfp "path/filepath"
	"sort"
	"strings"
	"sync"
	"testing"
	"time"

	webdav "github.com/emersion/go-webdav"
	"github.com/emersion/go-webdav/internal"
	"github.com/emersion/go-webdav/vsim/rt"
	"github.com/emersion/go-webdav/vsim/simos"
)

// UploadPlan is one streamed upload (Create, Write..., Close) against a
// scripted or real server with a fault plan (C18 part 2).
type UploadPlan struct {
	Size          int     `json:"size"`
	Writes        []int   `json:"writes"`
	PausesNS      []int64 `json:"pauses_ns"` // before each Write; one extra entry: before Close
	Server        string  `json:"server"`    // "script" | "handler"
	TargetState   string  `json:"target_state,omitempty"`
	ReadBytes     int     `json:"read_bytes"` // script: bytes the server reads before acting (-1: until EOF)
	ReadChunk     int     `json:"read_chunk"`
	ReadLatencyNS int64   `json:"read_latency_ns"`
	Action        string  `json:"action"` // "answer" | "drop" | "stall"
	Status        int     `json:"status,omitempty"`
	DAVError      bool    `json:"dav_error,omitempty"`
	OwnCtx        bool    `json:"own_ctx,omitempty"`   // the caller's context is of a type of its own (its own Done channel), not one of package context's
	RespBody      string  `json:"resp_body,omitempty"` // script, 2xx answers: "" none | "stall" (3 of 10 announced bytes, then nothing) | "slow" (the rest after 10 fake seconds) | "reset" (an error after 3 bytes)
	AnswerDelayNS int64   `json:"answer_delay_ns"`
	ClosePolicy   string  `json:"close_policy"` // "before-return" | "async" | "with-answer-body" (the request body is let go of when the answer's body is read to its end or closed)
	CloseDelayNS  int64   `json:"close_delay_ns,omitempty"`
	CancelAtNS    int64   `json:"cancel_at_ns"` // -1: never; 0: before Create; >0: that long after the start
	Deadline      bool    `json:"deadline,omitempty"`

	// mode N: the real net/http client and server over simulated connections
	Mode        string `json:"mode,omitempty"` // "" = D (in-process RoundTripper) | "N"
	NetCapacity int    `json:"net_capacity,omitempty"`
	ResetUpAt   int    `json:"reset_up_at,omitempty"`
	KeepAlive   bool   `json:"keep_alive,omitempty"`
	// an earlier call through the same client is turned down with an error
	// document of this media type (neither XML nor text), over a transport that
	// allows one connection per host: the upload needs that connection back
	Prelude string `json:"prelude,omitempty"`
	// server "handler": this many uploads were refused by the same handler
	// before (below a missing collection, onto a collection, with a failing
	// precondition): whatever a refusal forgets to give back adds up
	RefusedBefore int `json:"refused_before,omitempty"`
}

func uploadData(n int) []byte {
	b := make([]byte, n)
	for i := range b {
		b[i] = byte('a' + (i*31+i/251)%26)
	}
	return b
}

var errReset = errors.New("vsim: connection reset by peer")

// roleLog collects log lines of the goroutines of one upload run; lines are
// merged by (fake instant, role, per-role sequence) so the merged log does not
// depend on which of two goroutines that are runnable at the same fake instant
// the Go scheduler happens to run first.
type roleLog struct {
	mu sync.Mutex
	es []logEntry
	n  [4]int
}

func (l *roleLog) Addf(role int, format string, a ...interface{}) {
	l.mu.Lock()
	l.es = append(l.es, logEntry{at: time.Since(epoch).Nanoseconds(), id: role, seq: l.n[role], text: fmt.Sprintf(format, a...)})
	l.n[role]++
	l.mu.Unlock()
}

func (l *roleLog) flush(into *Log) {
	l.mu.Lock()
	defer l.mu.Unlock()
	sort.SliceStable(l.es, func(i, j int) bool {
		a, b := l.es[i], l.es[j]
		if a.at != b.at {
			return a.at < b.at
		}
		if a.id != b.id {
			return a.id < b.id
		}
		return a.seq < b.seq
	})
	for _, e := range l.es {
		s := fmt.Sprintf("t=+%d r%d %s", e.at, e.id, e.text)
		if into.sb != "" {
			s = strings.ReplaceAll(s, into.sb, "$SB")
		}
		into.Lines = append(into.Lines, s)
	}
	l.es = nil
}

type upTransport struct {
	p        *UploadPlan
	h        http.Handler
	log      *roleLog
	calls    int
	returned time.Time // fake instant at which RoundTrip handed back its result
	status   int       // status handed back (0: an error was returned)
	err      error
	received []byte
	sawEOF   bool
	closed   time.Time
	mu       sync.Mutex // mode N: the server side runs in net/http's goroutines
}

func (tr *upTransport) serverSaw() ([]byte, bool) {
	tr.mu.Lock()
	defer tr.mu.Unlock()
	return append([]byte(nil), tr.received...), tr.sawEOF
}

// aligned turns a delay into one that ends at a fake instant congruent to
// role modulo 64 ns: no two roles ever wake at the same instant, so what
// happens "at the same time" is decided by the plan, not by the Go scheduler.
func aligned(role int, d time.Duration) time.Duration {
	now := time.Now().UnixNano()
	target := ((now+int64(d)+63)/64)*64 + int64(role)
	if target <= now {
		target += 64
	}
	return time.Duration(target - now)
}

func sleepCtx(ctx context.Context, role int, d time.Duration) error {
	if d <= 0 {
		return ctx.Err()
	}
	tm := time.NewTimer(aligned(role, d))
	defer tm.Stop()
	select {
	case <-tm.C:
		return nil
	case <-ctx.Done():
		return ctx.Err()
	}
}

func (tr *upTransport) RoundTrip(req *http.Request) (resp *http.Response, err error) {
	p := tr.p
	tr.calls++
	ctx := req.Context()
	body := req.Body
	closeBody := func() {
		if body == nil {
			return
		}
		if p.ClosePolicy == "async" {
			// the RoundTripper contract allows closing the body from another
			// goroutine after RoundTrip has returned
			go func() {
				time.Sleep(aligned(3, time.Duration(p.CloseDelayNS)))
				body.Close()
				tr.closed = time.Now()
			}()
			return
		}
		body.Close()
		tr.closed = time.Now()
	}
	defer func() {
		tr.returned = time.Now()
		tr.err = err
		if resp != nil {
			tr.status = resp.StatusCode
		}
		tr.log.Addf(1, "  transport returns status=%d err=%v (server received %d bytes, eof=%v)", tr.status, err, len(tr.received), tr.sawEOF)
		if p.ClosePolicy == "with-answer-body" && resp != nil && err == nil && body != nil {
			// what net/http's own transport does for an answer that arrives before
			// the upload is over: it lets go of the request body only when the
			// answer's body has been read to its end or closed
			resp.Body = &hookBody{ReadCloser: resp.Body, done: func() {
				body.Close()
				tr.closed = time.Now()
			}}
			return
		}
		closeBody()
	}()
	if e := ctx.Err(); e != nil {
		return nil, e
	}
	if p.Server == "handler" {
		sreq, e := serverRequest(req)
		if e != nil {
			return nil, e
		}
		sreq = sreq.WithContext(ctx)
		tee := &teeBody{r: body}
		sreq.Body = tee
		rec := httptest.NewRecorder()
		tr.h.ServeHTTP(rec, sreq)
		tr.received = tee.buf.Bytes()
		res := rec.Result()
		rb, _ := io.ReadAll(res.Body)
		if e := sleepCtx(ctx, 2, time.Duration(p.AnswerDelayNS)); e != nil {
			return nil, e
		}
		return &http.Response{Status: res.Status, StatusCode: res.StatusCode, Proto: "HTTP/1.1", ProtoMajor: 1, ProtoMinor: 1,
			Header: res.Header, Body: io.NopCloser(bytes.NewReader(rb)), ContentLength: int64(len(rb)), Request: req}, nil
	}
	// scripted server: read some of the body, then act
	readDone := make(chan error, 1)
	go func() {
		buf := make([]byte, max(1, p.ReadChunk))
		for p.ReadBytes < 0 || len(tr.received) < p.ReadBytes {
			if p.ReadLatencyNS > 0 {
				if e := sleepCtx(ctx, 1, time.Duration(p.ReadLatencyNS)); e != nil {
					readDone <- e
					return
				}
			}
			want := len(buf)
			if p.ReadBytes >= 0 && p.ReadBytes-len(tr.received) < want {
				want = p.ReadBytes - len(tr.received)
			}
			n, e := body.Read(buf[:want])
			tr.received = append(tr.received, buf[:n]...)
			if e == io.EOF {
				tr.sawEOF = true
				readDone <- nil
				return
			}
			if e != nil {
				readDone <- e
				return
			}
		}
		readDone <- nil
	}()
	select {
	case e := <-readDone:
		if e != nil {
			if ce := ctx.Err(); ce != nil {
				return nil, ce
			}
			return nil, e
		}
	case <-ctx.Done():
		body.Close() // unblocks the reader
		<-readDone
		return nil, ctx.Err()
	}
	switch p.Action {
	case "drop":
		return nil, errReset
	case "stall":
		<-ctx.Done()
		return nil, ctx.Err()
	}
	if e := sleepCtx(ctx, 2, time.Duration(p.AnswerDelayNS)); e != nil {
		return nil, e
	}
	h := http.Header{}
	var rb []byte
	if p.Status >= 400 {
		if p.DAVError {
			h.Set("Content-Type", "application/xml; charset=utf-8")
			rb = []byte(`<?xml version="1.0" encoding="utf-8"?><D:error xmlns:D="DAV:"><D:lock-token-submitted/></D:error>`)
		} else {
			h.Set("Content-Type", "text/plain; charset=utf-8")
			rb = []byte("scripted refusal\n")
		}
	}
	if p.Status/100 != 2 && p.RespBody == "stall" && p.CancelAtNS > 0 {
		// an error answer whose text stalls after three bytes; the caller gives
		// up some time later (the cancellation is what ends the body's Read)
		h.Set("Content-Type", "text/plain; charset=utf-8")
		return &http.Response{Status: fmt.Sprintf("%d %s", p.Status, http.StatusText(p.Status)), StatusCode: p.Status, Proto: "HTTP/1.1", ProtoMajor: 1, ProtoMinor: 1,
			Header: h, Body: &lazyBody{ctx: ctx, mode: "stall", data: []byte("0123456789"), log: tr.log}, ContentLength: 10, Request: req}, nil
	}
	if p.Status/100 == 2 && p.RespBody != "" && p.Status != 204 {
		// a success whose (useless) body does not arrive in one piece: the
		// answer is there, the upload is over, nothing in the body matters
		h.Set("Content-Type", "text/plain")
		return &http.Response{Status: fmt.Sprintf("%d %s", p.Status, http.StatusText(p.Status)), StatusCode: p.Status, Proto: "HTTP/1.1", ProtoMajor: 1, ProtoMinor: 1,
			Header: h, Body: &lazyBody{ctx: ctx, mode: p.RespBody, data: []byte("0123456789"), log: tr.log}, ContentLength: 10, Request: req}, nil
	}
	return &http.Response{Status: fmt.Sprintf("%d %s", p.Status, http.StatusText(p.Status)), StatusCode: p.Status, Proto: "HTTP/1.1", ProtoMajor: 1, ProtoMinor: 1,
		Header: h, Body: io.NopCloser(bytes.NewReader(rb)), ContentLength: int64(len(rb)), Request: req}, nil
}

// ownCtx is a context.Context that package context knows nothing about: the
// kind an application framework or a tracing library hands to its callers.
type ownCtx struct {
	mu   sync.Mutex
	done chan struct{}
	err  error
}

func (c *ownCtx) Deadline() (time.Time, bool) { return time.Time{}, false }
func (c *ownCtx) Done() <-chan struct{}       { return c.done }
func (c *ownCtx) Value(any) any               { return nil }
func (c *ownCtx) Err() error {
	c.mu.Lock()
	defer c.mu.Unlock()
	return c.err
}
func (c *ownCtx) cancel() {
	c.mu.Lock()
	defer c.mu.Unlock()
	if c.err == nil {
		c.err = context.Canceled
		close(c.done)
	}
}

func hasStack(l []string, g string) bool {
	for _, x := range l {
		if x == g {
			return true
		}
	}
	return false
}

// goroutineStacks splits a dump of all goroutines by goroutine id.
func goroutineStacks(all string) map[string]string {
	out := map[string]string{}
	for _, g := range strings.Split(all, "\n\n") {
		if !strings.HasPrefix(g, "goroutine ") {
			continue
		}
		f := strings.Fields(g)
		if len(f) > 1 {
			out[f[1]] = g
		}
	}
	return out
}

func goroutineIDs(all string, _ bool) map[string]bool {
	out := map[string]bool{}
	for id := range goroutineStacks(all) {
		out[id] = true
	}
	return out
}

// hookBody tells the transport when the caller is done with an answer's body.
type hookBody struct {
	io.ReadCloser
	once sync.Once
	done func()
}

func (b *hookBody) Read(p []byte) (int, error) {
	n, err := b.ReadCloser.Read(p)
	if err != nil {
		b.once.Do(b.done)
	}
	return n, err
}

func (b *hookBody) Close() error {
	b.once.Do(b.done)
	return b.ReadCloser.Close()
}

// lazyBody is the body of an answer that does not arrive in one piece: three
// bytes, then - depending on the mode - nothing more ("stall": only closing it
// or cancelling the request ends a Read), the rest after ten fake seconds
// ("slow"), or a connection reset ("reset").
type lazyBody struct {
	ctx    context.Context
	mode   string
	data   []byte
	off    int
	closed chan struct{}
	once   sync.Once
	log    *roleLog
}

func (b *lazyBody) init() {
	b.once.Do(func() { b.closed = make(chan struct{}) })
}

func (b *lazyBody) Read(p []byte) (int, error) {
	b.init()
	if len(p) == 0 {
		return 0, nil
	}
	if b.off < 3 {
		n := copy(p, b.data[b.off:3])
		b.off += n
		return n, nil
	}
	switch b.mode {
	case "reset":
		return 0, errReset
	case "slow":
		if b.off == 3 {
			select {
			case <-time.After(10 * time.Second):
			case <-b.ctx.Done():
				return 0, b.ctx.Err()
			case <-b.closed:
				return 0, errors.New("http: read on closed response body")
			}
		}
		if b.off >= len(b.data) {
			return 0, io.EOF
		}
		n := copy(p, b.data[b.off:])
		b.off += n
		return n, nil
	}
	if b.log != nil {
		b.log.Addf(1, "  the client waits for the rest of the answer's body")
	}
	select {
	case <-b.ctx.Done():
		return 0, b.ctx.Err()
	case <-b.closed:
		return 0, errors.New("http: read on closed response body")
	}
}

func (b *lazyBody) Close() error {
	b.init()
	select {
	case <-b.closed:
	default:
		close(b.closed)
	}
	return nil
}

// ExecuteUpload runs one upload plan inside a bubble and judges it.
func ExecuteUpload(t *testing.T, plan *Plan, opts Opts) *RunResult {
	res := &RunResult{Log: &Log{}, Stats: NewStats()}
	res.Stats.Runs = 1
	res.Stats.Steps = 1
	p := plan.Upload
	class := fmt.Sprintf("upload mode=%s server=%s action=%s status=%d read=%s close=%s cancel=%s", map[bool]string{true: "N", false: "D"}[p.Mode == "N"], p.Server, p.Action, p.Status/100*100, readClass(p), p.ClosePolicy, cancelClass(p))
	if p.RespBody != "" && p.Mode != "N" {
		class += " answer-body=" + p.RespBody
	}
	add := func(clause, msg string) {
		v := Violation{Prop: "C18", Clause: clause, Class: class, Msg: msg}
		if opts.Own == "" || opts.Own == "C18" {
			res.Violations = append(res.Violations, v)
			res.Log.Lines = append(res.Log.Lines, "VIOLATION "+firstLines(v.String(), 1))
		}
	}
	var w *World
	finished := false
	var leak []string
	rl := &roleLog{}
	res.Bubble = rt.Bubble(t, func() {
		log := rl
		data := uploadData(p.Size)
		tr := &upTransport{p: p, log: log}
		var hc webdav.HTTPClient = &http.Client{Transport: tr}
		var netw *modeN
		name := "/up/target"
		if p.Server == "handler" {
			var err error
			w, err = NewWorld(opts.Base, plan.Config.RootName)
			if err != nil {
				res.Infra = err.Error()
				return
			}
			res.Log.sb = w.Sandbox
			realos.MkdirAll(realfp.Join(w.Root, "up"), 0o755)
			switch p.TargetState {
			case "file":
				realos.WriteFile(realfp.Join(w.Root, "up", "target"), []byte("old content"), 0o644)
			case "dir":
				realos.MkdirAll(realfp.Join(w.Root, "up", "target"), 0o755)
			case "orphan":
				name = "/up/nodir/target"
			}
			tr.h = &webdav.Handler{FileSystem: webdav.LocalFileSystem(w.Root)}
			if p.RefusedBefore > 0 {
				log.Addf(0, "%d uploads are refused by the same handler first", p.RefusedBefore)
				realos.MkdirAll(realfp.Join(w.Root, "up", "acoll"), 0o755)
				realos.WriteFile(realfp.Join(w.Root, "up", "afile"), []byte("kept"), 0o644)
				for i := 0; i < p.RefusedBefore; i++ {
					var req *http.Request
					switch i % 3 {
					case 0:
						req = httptest.NewRequest("PUT", fmt.Sprintf("/up/nodir-%d/x", i%5), strings.NewReader("refused"))
					case 1:
						req = httptest.NewRequest("PUT", "/up/acoll", strings.NewReader("refused"))
					default:
						req = httptest.NewRequest("PUT", "/up/afile", strings.NewReader("refused"))
						req.Header.Set("If-None-Match", "*")
					}
					rec := httptest.NewRecorder()
					tr.h.ServeHTTP(rec, req)
					if rec.Code/100 == 2 {
						res.Infra = fmt.Sprintf("a PUT that must be refused was answered %d", rec.Code)
						return
					}
				}
			}
		}
		if p.Mode == "N" {
			netw = newModeN(p, tr)
			hc = netw.client
			defer netw.shutdown()
		}
		client, err := webdav.NewClient(hc, "http://dav.test/")
		if err != nil {
			res.Infra = err.Error()
			return
		}
		if p.Mode == "N" && p.Prelude != "" {
			perr := client.Mkdir(context.Background(), "/earlier")
			log.Addf(0, "earlier call through the same client (answered 507 with a %s document): %v", p.Prelude, perr)
			tr.calls, tr.status, tr.err, tr.returned = 0, 0, nil, time.Time{}
		}
		start := time.Now()
		ctx, cancel := context.WithCancel(context.Background())
		if p.OwnCtx && !p.Deadline && p.Mode != "N" {
			oc := &ownCtx{done: make(chan struct{})}
			ctx, cancel = oc, oc.cancel
		}
		defer cancel()
		var baseline map[string]bool
		if p.Mode != "N" {
			rt.Wait()
			baseline = goroutineIDs(rt.AllStacks(), false)
		}
		var cancelledAt time.Time
		switch {
		case p.CancelAtNS == 0:
			cancel()
			cancelledAt = start
		case p.CancelAtNS > 0 && p.Deadline:
			var c2 context.CancelFunc
			d := aligned(5, time.Duration(p.CancelAtNS))
			ctx, c2 = context.WithDeadline(ctx, start.Add(d))
			defer c2()
			cancelledAt = start.Add(d)
		case p.CancelAtNS > 0:
			d := aligned(5, time.Duration(p.CancelAtNS))
			time.AfterFunc(d, cancel)
			cancelledAt = start.Add(d)
		}
		log.Addf(0, "upload %s size=%d writes=%v server=%s read=%d action=%s status=%d close=%s cancel_at=%d", name, p.Size, p.Writes, p.Server, p.ReadBytes, p.Action, p.Status, p.ClosePolicy, p.CancelAtNS)
		wc, err := client.Create(ctx, name)
		if err != nil {
			log.Addf(0, "  Create failed: %v", err)
			add("close-result", fmt.Sprintf("Create itself failed: %v", err))
			finished = true
			return
		}
		off := 0
		var writeErr error
		for i, n := range p.Writes {
			if i < len(p.PausesNS) && p.PausesNS[i] > 0 {
				time.Sleep(aligned(0, time.Duration(p.PausesNS[i])))
			}
			if off+n > len(data) {
				n = len(data) - off
			}
			m, e := wc.Write(data[off : off+n])
			log.Addf(0, "  Write(%d) = %d, %v", n, m, e)
			if e == nil && m != n {
				add("upload-bytes", fmt.Sprintf("Write(%d bytes) returned %d, nil", n, m))
			}
			off += m
			if e != nil {
				writeErr = e
				break
			}
		}
		if writeErr == nil && off < len(data) {
			m, e := wc.Write(data[off:])
			log.Addf(0, "  Write(%d) = %d, %v", len(data)-off, m, e)
			off += m
			writeErr = e
		}
		if k := len(p.Writes); k < len(p.PausesNS) && p.PausesNS[k] > 0 {
			time.Sleep(aligned(0, time.Duration(p.PausesNS[k])))
		}
		cerr := wc.Close()
		closedAt := time.Now()
		log.Addf(0, "  Close() = %v", cerr)
		if baseline != nil {
			// (4b) whatever goroutine the upload started - directly or through a
			// package it called (context.WithCancel on a foreign context type
			// starts one) - is gone once Close has returned and things have
			// settled; the caller's context is still alive at this point
			rt.Wait()
			for id, st := range goroutineStacks(rt.AllStacks()) {
				if !baseline[id] && !strings.Contains(st, "/vsim/") && !strings.Contains(st, "testing.") {
					leak = append(leak, st)
				}
			}
			sort.Strings(leak)
		}
		res.Stats.FakeNS += int64(closedAt.Sub(start))

		// (2) Close returns only after the transport handed back the outcome
		if tr.calls == 0 {
			add("close-before-answer", "Close returned although the request was never handed to the HTTP client")
		} else if tr.returned.IsZero() || closedAt.Before(tr.returned) {
			add("close-before-answer", fmt.Sprintf("Close returned at +%v, the transport delivered the outcome at +%v", closedAt.Sub(start), tr.returned.Sub(start)))
		}
		// (3) nil iff 2xx, otherwise the failure
		switch {
		case tr.calls == 0:
		case tr.status/100 == 2:
			if cerr != nil {
				add("close-result", fmt.Sprintf("the server answered %d but Close returned %v", tr.status, cerr))
			}
		case tr.status != 0:
			var he *internal.HTTPError
			if cerr == nil {
				add("close-result", fmt.Sprintf("the server answered %d but Close returned nil", tr.status))
			} else if !errors.As(cerr, &he) || he.Code != tr.status {
				add("close-result", fmt.Sprintf("the server answered %d; Close returned %q, which does not carry that status", tr.status, cerr))
			} else if p.DAVError && tr.status >= 400 && p.Server == "script" && !(p.RespBody == "stall" && p.CancelAtNS > 0) && !strings.Contains(cerr.Error(), "lock-token-submitted") {
				add("close-result", fmt.Sprintf("the server answered %d with a DAV:error body; Close returned %q, which lost the condition element", tr.status, cerr))
			}
		default:
			if cerr == nil {
				add("close-result", fmt.Sprintf("the round trip failed with %v but Close returned nil", tr.err))
			} else if !errors.Is(cerr, tr.err) {
				add("close-result", fmt.Sprintf("the round trip failed with %q; Close returned %q, which does not wrap it", tr.err, cerr))
			}
			if errors.Is(tr.err, context.Canceled) || errors.Is(tr.err, context.DeadlineExceeded) {
				if !cancelledAt.IsZero() && closedAt.Before(cancelledAt) {
					add("close-before-answer", "Close returned a context error before the context was cancelled")
				}
			}
		}
		// (5) what the server received is what was written
		received, sawEOF := tr.serverSaw()
		if sawEOF || (p.Server == "handler" && tr.status/100 == 2 && p.Mode != "N") {
			if tr.status/100 == 2 && writeErr == nil && !bytes.Equal(received, data[:off]) {
				add("upload-bytes", fmt.Sprintf("the server received %d bytes, %d were written; first difference at %d", len(received), off, firstDiffAt(received, data[:off])))
			}
		}
		if p.Server == "handler" && tr.status/100 == 2 && writeErr == nil {
			got, _ := realos.ReadFile(realfp.Join(w.Root, "up", "target"))
			if !bytes.Equal(got, data) {
				add("upload-bytes", fmt.Sprintf("stored %d bytes, written %d", len(got), len(data)))
			}
		}
		// (4) no goroutine of the library outlives Close
		rt.Wait()
		started := leak // (4b): goroutines that were not there before Create
		leak = rt.LibraryGoroutines(rt.AllStacks())
		for _, g := range started {
			if !hasStack(leak, g) {
				leak = append(leak, g)
			}
		}
		if p.Mode == "N" {
			// the server's handler goroutines are library frames too; what must not
			// outlive Close is the client's goroutine
			var cl []string
			for _, g := range leak {
				if strings.Contains(g, "go-webdav.(*Client)") || strings.Contains(g, "go-webdav/internal.(*Client)") {
					cl = append(cl, g)
				}
			}
			leak = cl
			netw.shutdown()
		}
		// let an asynchronous body close finish inside the bubble
		time.Sleep(time.Duration(p.CloseDelayNS) + time.Second)
		finished = true
	})
	if !res.Bubble.Stuck {
		simos.Hook = nil
		rl.flush(res.Log)
		if w != nil {
			w.Close()
		}
	}
	if res.Bubble.Panic != nil {
		add("panic", "panic during the upload: "+res.Bubble.PanicText)
		return res
	}
	if res.Bubble.Stuck {
		res.Stuck = true
		res.Stats.Deadlocks++
		msg := "Write or Close made no progress for " + rt.StuckAfter.String() + " of real time:\n" + firstLines(strings.Join(rt.LibraryGoroutines(res.Bubble.Stacks), "\n\n"), 40)
		if realos.Getenv("VSIM_DEBUG_STACKS") != "" {
			msg += "\n---- all goroutines ----\n" + res.Bubble.Stacks
		}
		add("upload-hang", msg)
		return res
	}
	if res.Bubble.Deadlock || (res.Bubble.Leftover && !finished) {
		res.Stats.Deadlocks++
		add("upload-hang", "Write or Close never returned (all goroutines of the bubble are blocked):\n"+firstLines(strings.Join(rt.LibraryGoroutines(res.Bubble.Stacks), "\n\n"), 40))
		return res
	}
	if res.Bubble.Leftover && finished && p.Mode != "N" {
		if l := rt.LibraryGoroutines(res.Bubble.Stacks); len(l) > 0 {
			leak = append(leak, l...)
		}
	}
	if len(leak) > 0 {
		add("goroutine-leak", fmt.Sprintf("%d goroutine(s) of the library are still alive after Close returned:\n%s", len(leak), firstLines(leak[0], 30)))
	}
	res.Stats.NT("C18|" + class + fmt.Sprintf(" size=%d writes=%d", sizeBucket(p.Size), min(len(p.Writes), 4)))
	res.Stats.Classes[class]++
	res.Stats.FaultsFired["upload:"+p.Action+":"+cancelClass(p)]++
	return res
}

func firstDiffAt(a, b []byte) int {
	for i := 0; i < len(a) && i < len(b); i++ {
		if a[i] != b[i] {
			return i
		}
	}
	return min(len(a), len(b))
}

func readClass(p *UploadPlan) string {
	switch {
	case p.Server == "handler":
		return p.TargetState
	case p.ReadBytes < 0 || p.ReadBytes >= p.Size:
		return "all"
	case p.ReadBytes == 0:
		return "none"
	}
	return "partial"
}

func cancelClass(p *UploadPlan) string {
	switch {
	case p.CancelAtNS < 0:
		return "never"
	case p.CancelAtNS == 0:
		return "before-create"
	case p.Deadline:
		return "deadline"
	}
	return "during"
}

// GenC18Upload draws one upload plan.
func GenC18Upload(seed uint64, tier string) *Plan {
	r := rt.NewRand(seed)
	pl := &Plan{Format: 1, Property: "C18", Profile: "upload", RunSeed: seed, Config: Config{Store: "localfs", RootName: RootName}}
	p := &UploadPlan{}
	pl.Upload = p
	switch r.Weighted([]int{2, 3, 5, 3, 1}) {
	case 0:
		p.Size = 0
	case 1:
		p.Size = 1 + r.Intn(16)
	case 2:
		p.Size = r.Range(17, 5000)
	case 3:
		p.Size = rt.Pick(r, []int{32767, 32768, 32769, 65536, 70000, 262144})
	case 4:
		p.Size = 1 << 20
		if tier == "thorough" && r.Chance(0.3) {
			p.Size = 4 << 20
		}
	}
	for rest := p.Size; rest > 0 && len(p.Writes) < 8; {
		k := 1 + r.Intn(rest)
		if len(p.Writes) == 7 {
			k = rest
		}
		if r.Chance(0.1) {
			k = 0
		}
		p.Writes = append(p.Writes, k)
		rest -= k
	}
	if p.Size == 0 && r.Chance(0.5) {
		p.Writes = []int{0}
	}
	for i := 0; i <= len(p.Writes); i++ {
		var d int64
		switch r.Weighted([]int{5, 3, 1}) {
		case 1:
			d = int64(r.Range(1, 1000)) * 1e6
		case 2:
			d = int64(r.Range(1, 120)) * 1e9
		}
		p.PausesNS = append(p.PausesNS, d)
	}
	p.ClosePolicy = rt.Pick(r, []string{"before-return", "before-return", "async", "with-answer-body"})
	if p.ClosePolicy == "async" {
		p.CloseDelayNS = rt.Pick(r, []int64{1, 1e6, 1e9, 30e9})
	}
	if r.Chance(0.3) {
		p.Server = "handler"
		p.TargetState = rt.Pick(r, []string{"missing", "file", "dir", "orphan"})
		p.Action = "answer"
		p.ReadBytes = -1
		p.AnswerDelayNS = rt.Pick(r, []int64{0, 1e6, 5e9})
		if r.Chance(0.25) {
			p.RefusedBefore = rt.Pick(r, []int{1, 9, 33, 65, 130, 260})
		}
	} else {
		p.Server = "script"
		switch r.Weighted([]int{3, 2, 4}) {
		case 0:
			p.ReadBytes = -1
		case 1:
			p.ReadBytes = 0
		case 2:
			p.ReadBytes = r.Intn(p.Size + 1)
		}
		p.ReadChunk = rt.Pick(r, []int{1, 7, 512, 4096, 32768, 1 << 20})
		if p.Size > 100000 && p.ReadChunk < 512 {
			p.ReadChunk = 4096
		}
		p.ReadLatencyNS = rt.Pick(r, []int64{0, 0, 1000, 1e6, 1e9})
		if p.Size > 100000 && p.ReadLatencyNS > 1e6 {
			p.ReadLatencyNS = 1e6
		}
		p.Action = []string{"answer", "drop", "stall"}[r.Weighted([]int{6, 2, 2})]
		p.Status = rt.Pick(r, []int{200, 201, 204, 207, 299, 301, 304, 400, 403, 404, 405, 409, 412, 413, 423, 500, 502, 503, 507})
		p.DAVError = r.Chance(0.3)
		p.AnswerDelayNS = rt.Pick(r, []int64{0, 1, 1e6, 1e9, 60e9})
		if p.Status/100 == 2 && p.Action == "answer" && r.Chance(0.3) {
			p.RespBody = rt.Pick(r, []string{"stall", "stall", "slow", "reset"})
		} else if p.Status/100 != 2 && p.Action == "answer" && r.Chance(0.15) {
			p.RespBody = "stall" // takes effect only when a cancellation is planned as well
		}
		p.OwnCtx = r.Chance(0.3)
	}
	switch r.Weighted([]int{5, 1, 3, 1}) {
	case 0:
		p.CancelAtNS = -1
	case 1:
		p.CancelAtNS = 0
	case 2:
		p.CancelAtNS = rt.Pick(r, []int64{1, 1e3, 1e6, 500e6, 1e9, 10e9, 100e9, 1000e9})
	case 3:
		p.CancelAtNS = rt.Pick(r, []int64{1e6, 1e9, 30e9})
		p.Deadline = true
	}
	share := 0.12
	if tier == "thorough" {
		share = 0.2
	}
	if s := realos.Getenv("VSIM_MODE_N_SHARE"); s != "" {
		fmt.Sscanf(s, "%g", &share)
	}
	if r.Chance(share) {
		p.Mode = "N"
		p.NetCapacity = rt.Pick(r, []int{0, 4096, 65536, 1 << 20})
		p.KeepAlive = r.Chance(0.5)
		if r.Chance(0.15) {
			p.ResetUpAt = 1 + r.Intn(p.Size+400)
		}
		if p.Size > 300000 {
			p.Size = 262144
			p.Writes = []int{100000, 100000, 62144}
			p.PausesNS = []int64{0, 0, 0, 0}
		}
		if p.Server == "script" && r.Chance(0.2) {
			p.Prelude = rt.Pick(r, []string{"application/json", "application/octet-stream", "image/png", "application/xml", "text/xml; charset=utf-8", "text/html", "text/plain"})
		}
		if p.Server == "script" && r.Chance(0.25) {
			// the server answers 2xx with a body at once, reads little or nothing of
			// an upload that does not fit into the connection's buffers and keeps
			// the connection: net/http goes on copying the request body until the
			// answer's body has been read or closed, so whoever holds that body
			// decides whether Write and Close ever return
			p.Action = "answer"
			p.Status = rt.Pick(r, []int{200, 200, 201, 207})
			p.RespBody = "stall"
			p.ReadBytes = rt.Pick(r, []int{0, 0, 1, 512})
			p.ReadLatencyNS = 0
			p.AnswerDelayNS = rt.Pick(r, []int64{0, 1, 1e6})
			p.NetCapacity = rt.Pick(r, []int{0, 4096, 65536})
			p.Size = rt.Pick(r, []int{70000, 200000, 262144})
			p.Writes = []int{p.Size / 3, p.Size / 3, p.Size - 2*(p.Size/3)}
			p.PausesNS = []int64{0, 0, 0, 0}
			p.ResetUpAt = 0
			if r.Chance(0.7) {
				p.CancelAtNS = -1
				p.Deadline = false
			}
		}
	}
	if p.Action == "stall" && p.CancelAtNS < 0 {
		// "stall forever and never cancel" is what no client can survive
		p.CancelAtNS = rt.Pick(r, []int64{1e9, 30e9, 3600e9})
	}
	return pl
}
