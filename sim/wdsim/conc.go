//go:build go1.25

package wdsim

import (
	"context"
	"fmt"
	"io"
	"net/http"
	"net/http/httptest"
	realos "os"
	realfp "path/filepath"
	"runtime"
	"runtime/debug"
	"sort"
	"strings"
	"testing"
	"time"

	webdav "github.com/emersion/go-webdav"
	"github.com/emersion/go-webdav/vsim/model"
	"github.com/emersion/go-webdav/vsim/rt"
	"github.com/emersion/go-webdav/vsim/simos"
)

// TaskPlan is the operation list of one concurrent caller task; everything it
// addresses lies below /t<ID>.
type TaskPlan struct {
	ID    int       `json:"id"`
	Setup []SetupOp `json:"setup,omitempty"`
	Steps []Step    `json:"steps"`
}

// gctx is the scheduling identity of one goroutine role. Every goroutine that
// can reach a seam has one; it only ever wakes at fake instants congruent to
// its id modulo 64 ns, so no two goroutines wake at the same instant and the
// order of all seam events is a pure function of the seed.
type gctx struct {
	id    int
	rng   *rt.Rand
	log   []logEntry
	slots int
	stall float64
}

type logEntry struct {
	at   int64
	id   int
	seq  int
	text string
}

func (g *gctx) logf(format string, a ...interface{}) {
	g.log = append(g.log, logEntry{at: time.Since(epoch).Nanoseconds(), id: g.id, seq: len(g.log), text: fmt.Sprintf(format, a...)})
}

// yield is a scheduling point: sleep until a seeded, unique fake instant.
func (g *gctx) yield() {
	rt.Tick()
	now := time.Now().UnixNano()
	k := int64(1 + g.rng.Intn(g.slots))
	if g.stall > 0 && g.rng.Chance(g.stall) {
		k += int64(g.rng.Intn(1 << 20)) // a stalled node
	}
	target := (now/64+k)*64 + int64(g.id)
	time.Sleep(time.Duration(target - now))
}

type ctask struct {
	idx           int
	caller, up    *gctx
	uploadActive  bool
	obs           []string
	tagIdx        map[string]int
	preempts      int // seam events of other tasks that ran between two of ours (measured after the run)
	diskCalls     int
	bodyReads     int
	transportHops int
}

// Which task a goroutine belongs to is looked up by goroutine id in a small
// table that is written and read in //go:norace functions only: no race
// report, and - unlike a mutex or an atomic - no happens-before edge between
// tasks that could hide a race on library state. Every goroutine only ever
// looks for its own id, which it stored itself.
var curGoid [16]uint64

//go:norace
func curSet(slot int, g uint64) { curGoid[slot] = g }

//go:norace
func curFind(g uint64) int {
	for i := range curGoid {
		if curGoid[i] == g {
			return i
		}
	}
	return -1
}

//go:norace
func curReset() {
	for i := range curGoid {
		curGoid[i] = 0
	}
}

func goid() uint64 {
	var buf [64]byte
	n := runtime.Stack(buf[:], false)
	// "goroutine 123 ["
	var id uint64
	for _, ch := range buf[10:n] {
		if ch < '0' || ch > '9' {
			break
		}
		id = id*10 + uint64(ch-'0')
	}
	return id
}

// gctxOfCaller returns the scheduling identity of the calling goroutine.
func gctxOfCaller(tasks *[8]*ctask) (*ctask, *gctx) {
	slot := curFind(goid())
	if slot < 0 {
		return nil, nil
	}
	t := tasks[slot%8]
	if t == nil {
		return nil, nil
	}
	if slot >= 8 {
		return t, t.up
	}
	return t, t.caller
}

type taskKey struct{}

func taskOf(ctx context.Context) *ctask {
	t, _ := ctx.Value(taskKey{}).(*ctask)
	return t
}

// concSeam is the disk seam of the concurrent engine. It holds no mutable
// state of its own: everything it touches belongs to the task that owns the
// path, so tasks never meet in harness memory (the race detector must see
// library state only).
type concSeam struct {
	root    string
	sandbox string
	tasks   [8]*ctask
	shared  *ctask
}

func (s *concSeam) Before(c *simos.Call) *simos.Inject {
	t, g := gctxOfCaller(&s.tasks)
	if t == nil {
		return nil
	}
	t.diskCalls++
	g.yield()
	if !within(s.sandbox, realfp.Clean(c.Path)) {
		return &simos.Inject{Errno: 1, Short: -1}
	}
	return nil
}

func (s *concSeam) After(c *simos.Call, err error) {
	// modification times come from the fake clock
	if c.Writable {
		switch c.Op {
		case "open", "write", "close", "truncate", "mkdir":
			if err == nil || c.Op == "write" {
				now := time.Now()
				realos.Chtimes(c.Path, now, now)
			}
		}
	}
	t, g := gctxOfCaller(&s.tasks)
	if t == nil {
		return
	}
	es := "ok"
	if err != nil {
		es = strings.ReplaceAll(err.Error(), s.sandbox, "$SB")
	}
	g.logf("disk %s %s %s n=%d: %s", c.Fn, strings.TrimPrefix(c.Path, s.sandbox), strings.TrimPrefix(c.Path2, s.sandbox), c.N, es)
}

// calibrationWord is touched, unsynchronised, once per request when a plan
// asks for calibration: the race detector must report it, otherwise it is
// blind and a clean batch means nothing.
var calibrationWord int

func calibrationProbe() { calibrationWord++ }

// concTransport delivers requests to the shared handler in the calling
// goroutine, with a scheduling point before delivery and before returning.
type concTransport struct {
	h          http.Handler
	calibrate  bool
	redirected bool
}

func (tr *concTransport) gctxFor(t *ctask) *gctx {
	g := goid()
	slot := curFind(g)
	if slot < 0 {
		// first contact of a goroutine the library started (the upload goroutine)
		slot = 8 + t.idx
		curSet(slot, g)
	}
	if slot >= 8 {
		return t.up
	}
	return t.caller
}

func (tr *concTransport) serve(t *ctask, sreq *http.Request) (*model.Response, string) {
	g := tr.gctxFor(t)
	t.transportHops++
	g.yield() // the request travels
	if tr.calibrate {
		calibrationProbe()
	}
	rec := httptest.NewRecorder()
	pan := ""
	func() {
		defer func() {
			if r := recover(); r != nil {
				pan = fmt.Sprintf("%v\n%s", r, debug.Stack())
			}
		}()
		tr.h.ServeHTTP(rec, sreq)
	}()
	res := rec.Result()
	rb, _ := io.ReadAll(res.Body)
	if sreq.Method == "HEAD" || res.StatusCode == 204 || res.StatusCode == 304 {
		rb = nil
	}
	g = tr.gctxFor(t)
	g.yield() // the answer travels
	return &model.Response{Status: res.StatusCode, H: res.Header, Body: rb}, pan
}

type yieldBody struct {
	r io.ReadCloser
	t *ctask
	g func() *gctx
}

func (y *yieldBody) Read(p []byte) (int, error) {
	y.t.bodyReads++
	y.g().yield()
	return y.r.Read(p)
}
func (y *yieldBody) Close() error { return y.r.Close() }

func (tr *concTransport) RoundTrip(creq *http.Request) (*http.Response, error) {
	if creq.Body != nil {
		defer creq.Body.Close()
	}
	t := taskOf(creq.Context())
	if t == nil {
		return nil, fmt.Errorf("vsim: request without a task")
	}
	if err := creq.Context().Err(); err != nil {
		return nil, err
	}
	sreq, err := serverRequest(creq)
	if err != nil {
		return nil, err
	}
	sreq = sreq.WithContext(creq.Context())
	if creq.Body != nil && creq.Body != http.NoBody {
		sreq.Body = &yieldBody{r: creq.Body, t: t, g: func() *gctx { return tr.gctxFor(t) }}
	}
	resp, pan := tr.serve(t, sreq)
	if pan != "" {
		tr.gctxFor(t).logf("PANIC %s", pan)
		return nil, fmt.Errorf("vsim: handler panicked: %s", firstLines(pan, 1))
	}
	tr.gctxFor(t).logf("wire %s %s -> %d", sreq.Method, sreq.RequestURI, resp.Status)
	if tr.redirected && creq.URL != nil {
		// what http.Client hands back after following a redirect to the
		// canonical origin: the answer names the request that was finally sent
		u := *creq.URL
		u.Scheme, u.Host = "https", "www."+strings.TrimPrefix(u.Host, "www.")
		final := creq.Clone(creq.Context())
		final.URL = &u
		creq = final
	}
	return &http.Response{
		Status: fmt.Sprintf("%d %s", resp.Status, http.StatusText(resp.Status)), StatusCode: resp.Status,
		Proto: "HTTP/1.1", ProtoMajor: 1, ProtoMinor: 1, Header: resp.H.Clone(),
		Body: framedBody(resp.H, resp.Body, sreq.Method, resp.Status), ContentLength: -1, Request: creq,
	}, nil
}

// ---- observations ------------------------------------------------------------------

func (t *ctask) tag(s string) string {
	if s == "" {
		return ""
	}
	if t.tagIdx == nil {
		t.tagIdx = map[string]int{}
	}
	i, ok := t.tagIdx[s]
	if !ok {
		i = len(t.tagIdx)
		t.tagIdx[s] = i
	}
	return fmt.Sprintf("E%d", i)
}

func (t *ctask) normInfo(fi *webdav.FileInfo) string {
	if fi == nil {
		return "<nil>"
	}
	mt := "T"
	if fi.ModTime.IsZero() {
		mt = "zero"
	}
	if fi.IsDir {
		return fmt.Sprintf("{%q dir}", fi.Path)
	}
	return fmt.Sprintf("{%q size=%d mod=%s type=%q tag=%s}", fi.Path, fi.Size, mt, fi.MIMEType, t.tag(fi.ETag))
}

// normResponse renders a raw response with time-derived values replaced by
// first-appearance indices.
func (t *ctask) normResponse(r *model.Response) string {
	var hs []string
	for k, vs := range r.H {
		v := strings.Join(vs, ",")
		switch k {
		case "Etag":
			v = t.tag(v)
		case "Last-Modified", "Date":
			v = "T"
		}
		hs = append(hs, k+"="+v)
	}
	sort.Strings(hs)
	body := string(r.Body)
	if r.Status == 207 {
		if ms, err := model.ParseMultiStatus(r.Body); err == nil {
			var b strings.Builder
			for _, resp := range ms.Responses {
				fmt.Fprintf(&b, "[%s", strings.Join(resp.Hrefs, ","))
				var ps []string
				for _, p := range resp.Props {
					v := renderElem(p.Elem)
					switch p.Name {
					case "{DAV:}getetag":
						v = t.tag(v)
					case "{DAV:}getlastmodified":
						if v != "" {
							v = "T"
						}
					}
					ps = append(ps, fmt.Sprintf(" %d:%s=%s", p.Status, p.Name, v))
				}
				sort.Strings(ps)
				b.WriteString(strings.Join(ps, "") + "]")
			}
			body = b.String()
		}
	}
	if len(body) > 400 {
		body = fmt.Sprintf("%s...(%d bytes, fnv %x)", body[:200], len(body), rt.MixS(0, body))
	}
	return fmt.Sprintf("%d %s %q", r.Status, strings.Join(hs, " "), body)
}

// ownMembers renders the part of a multi-status that concerns /shared itself
// and the members named t<idx>-*.
func (t *ctask) ownMembers(r *model.Response) string {
	ms, err := model.ParseMultiStatus(r.Body)
	if err != nil {
		return fmt.Sprintf("%d unreadable: %v", r.Status, err)
	}
	var out []string
	own := fmt.Sprintf("/shared/t%d-", t.idx)
	for _, resp := range ms.Responses {
		h := model.Normalise(model.ParseHref(resp.Hrefs[0]).Path).Path
		if h != "/shared" && !strings.HasPrefix(h, own) {
			continue
		}
		var ps []string
		for _, p := range resp.Props {
			v := renderElem(p.Elem)
			switch p.Name {
			case "{DAV:}getetag":
				v = t.tag(v)
			case "{DAV:}getlastmodified":
				v = "T"
			}
			ps = append(ps, fmt.Sprintf("%d:%s=%s", p.Status, p.Name, v))
		}
		sort.Strings(ps)
		out = append(out, h+" "+strings.Join(ps, " "))
	}
	sort.Strings(out)
	return fmt.Sprintf("%d %s", r.Status, strings.Join(out, " | "))
}

func normErr(err error) string {
	if err == nil {
		return "nil"
	}
	return err.Error()
}

// ---- execution ---------------------------------------------------------------------

type concResult struct {
	obs   [][]string               // per task
	final []map[string]model.Entry // per task: its subtree at the end
	logs  []logEntry
	order string // cross-task order of seam events, projected on task ids
	hops  int
}

// runTasks executes the given tasks concurrently on one shared handler and one
// shared client inside the current bubble.
func runTasks(plan *Plan, tasks []TaskPlan, base string, log *Log) (*concResult, string) {
	w, err := NewWorld(base, plan.Config.RootName)
	if err != nil {
		return nil, "cannot create sandbox: " + err.Error()
	}
	defer w.Close()
	curReset()
	seam := &concSeam{root: w.Root, sandbox: w.Sandbox}
	slots := plan.Slots
	if slots <= 0 {
		slots = 4
	}
	var cts []*ctask
	for _, tp := range tasks {
		// delay streams differ between the concurrent and the solo run on
		// purpose: observations must not depend on them
		mk := func(id int) *gctx {
			return &gctx{id: id, rng: rt.NewRand(rt.Mix(plan.SchedSeed, uint64(id), uint64(len(tasks)))), slots: slots, stall: plan.Stall}
		}
		ct := &ctask{idx: tp.ID, caller: mk(tp.ID), up: mk(8 + tp.ID)}
		seam.tasks[tp.ID] = ct
		cts = append(cts, ct)
	}

	// set-up, straight on the store
	realos.MkdirAll(realfp.Join(w.Root, "shared"), 0o755)
	for _, tp := range tasks {
		realos.MkdirAll(realfp.Join(w.Root, fmt.Sprintf("t%d", tp.ID)), 0o755)
		for _, op := range tp.Setup {
			time.Sleep(time.Millisecond)
			now := time.Now()
			switch {
			case op.Mkcol != "":
				full := realfp.Join(w.Root, realfp.FromSlash(op.Mkcol))
				realos.MkdirAll(full, 0o755)
				realos.Chtimes(full, now, now)
			case op.Put != "":
				full := realfp.Join(w.Root, realfp.FromSlash(op.Put))
				realos.WriteFile(full, op.Data, 0o644)
				realos.Chtimes(full, now, now)
			}
		}
	}
	// align the clock so that every task starts from an instant that does not
	// depend on how long the set-up took
	time.Sleep(time.Until(epoch.Add(time.Hour)))

	handler := &webdav.Handler{FileSystem: webdav.LocalFileSystem(w.Root)}
	tr := &concTransport{h: handler, calibrate: plan.Calibrate, redirected: plan.Config.Redirected}
	client, err := webdav.NewClient(&http.Client{Transport: tr}, "http://dav.test/")
	if err != nil {
		return nil, "cannot create client: " + err.Error()
	}
	simos.Hook = seam
	defer func() { simos.Hook = nil }()

	done := make(chan int, len(tasks))
	for i := range tasks {
		tp, ct := &tasks[i], cts[i]
		go func() {
			defer func() { done <- tp.ID }()
			runTask(tp, ct, client, tr)
		}()
	}
	for range tasks {
		<-done
	}
	simos.Hook = nil

	res := &concResult{}
	for i, ct := range cts {
		res.obs = append(res.obs, ct.obs)
		sub := map[string]model.Entry{}
		prefix := fmt.Sprintf("/t%d", tasks[i].ID)
		for p, e := range Snapshot(w.Root) {
			if p == prefix || model.IsAncestor(prefix, p) || strings.HasPrefix(p, "/shared"+prefix+"-") {
				sub[p] = e
			}
		}
		res.final = append(res.final, sub)
		res.logs = append(res.logs, ct.caller.log...)
		res.logs = append(res.logs, ct.up.log...)
		res.hops += ct.transportHops + ct.diskCalls + ct.bodyReads
	}
	sort.SliceStable(res.logs, func(i, j int) bool {
		a, b := res.logs[i], res.logs[j]
		if a.at != b.at {
			return a.at < b.at
		}
		if a.id != b.id {
			return a.id < b.id
		}
		return a.seq < b.seq
	})
	var ord strings.Builder
	last := -1
	for _, e := range res.logs {
		id := e.id % 8
		if id != last {
			fmt.Fprintf(&ord, "%d", id)
			last = id
		}
		if log != nil {
			log.Lines = append(log.Lines, fmt.Sprintf("t=+%d g%d %s", e.at, e.id, e.text))
		}
	}
	res.order = ord.String()
	return res, ""
}

func runTask(tp *TaskPlan, t *ctask, client *webdav.Client, tr *concTransport) {
	curSet(t.idx, goid())
	ctx := context.WithValue(context.Background(), taskKey{}, t)
	g := t.caller
	observe := func(format string, a ...interface{}) {
		s := fmt.Sprintf(format, a...)
		t.obs = append(t.obs, s)
		g.logf("obs %s", s)
	}
	for i := range tp.Steps {
		st := &tp.Steps[i]
		g.yield() // caller step
		if a := st.API; a != nil {
			g.logf("call %d %s(%q, %q)", i, a.Fn, a.Name, a.Dest)
			switch a.Fn {
			case "Stat":
				fi, err := client.Stat(ctx, a.Name)
				observe("%d Stat = %s err=%s", i, t.normInfo(fi), normErr(err))
			case "ReadDir":
				l, err := client.ReadDir(ctx, a.Name, a.Recursive)
				var s []string
				for k := range l {
					s = append(s, t.normInfo(&l[k]))
				}
				sort.Strings(s)
				observe("%d ReadDir = %v err=%s", i, s, normErr(err))
			case "Open":
				rc, err := client.Open(ctx, a.Name)
				var data []byte
				if err == nil {
					data, _ = io.ReadAll(rc)
					rc.Close()
				}
				observe("%d Open = %d bytes fnv=%x err=%s", i, len(data), rt.MixS(0, string(data)), normErr(err))
			case "Create":
				t.uploadActive = true
				wc, err := client.Create(ctx, a.Name)
				var werr, cerr error
				if err == nil {
					off := 0
					for _, n := range a.Writes {
						if off+n > len(a.Data) {
							n = len(a.Data) - off
						}
						g.yield()
						if _, e := wc.Write(a.Data[off : off+n]); e != nil {
							werr = e
							break
						}
						off += n
					}
					if werr == nil && off < len(a.Data) {
						_, werr = wc.Write(a.Data[off:])
					}
					cerr = wc.Close()
				}
				t.uploadActive = false
				// whether a Write that races with an early refusal fails or not is
				// timing, not behaviour: only Close's verdict is an observation
				_ = werr
				observe("%d Create err=%s close=%s", i, normErr(err), normErr(cerr))
			case "Mkdir":
				observe("%d Mkdir err=%s", i, normErr(client.Mkdir(ctx, a.Name)))
			case "RemoveAll":
				observe("%d RemoveAll err=%s", i, normErr(client.RemoveAll(ctx, a.Name)))
			case "Copy":
				var o *webdav.CopyOptions
				if !a.NilOptions {
					o = &webdav.CopyOptions{NoRecursive: a.NoRecursive, NoOverwrite: a.NoOverwrite}
				}
				observe("%d Copy err=%s", i, normErr(client.Copy(ctx, a.Name, a.Dest, o)))
			case "Move":
				var o *webdav.MoveOptions
				if !a.NilOptions {
					o = &webdav.MoveOptions{NoOverwrite: a.NoOverwrite}
				}
				observe("%d Move err=%s", i, normErr(client.Move(ctx, a.Name, a.Dest, o)))
			}
			continue
		}
		req, why := buildRequest(st)
		if req == nil {
			observe("%d %s not delivered: %s", i, st.Method, why)
			continue
		}
		g.logf("call %d %s %s", i, st.Method, st.Target)
		body := &FaultBody{Data: st.Body, Chunk: st.Chunk}
		for fi := range st.Faults {
			if st.Faults[fi].Seam == "req-body" {
				// this task's upload breaks off (the same way when it runs alone)
				body.Fault = &st.Faults[fi]
			}
		}
		if st.Chunk < 0 {
			body.Rng = rt.NewRand(rt.Mix(uint64(t.idx), uint64(i), 0xb0d1))
		}
		if len(st.Body) == 0 {
			req.Body = http.NoBody
		} else {
			req.Body = &yieldBody{r: body, t: t, g: func() *gctx { return t.caller }}
		}
		req = req.WithContext(ctx)
		resp, pan := tr.serve(t, req)
		if pan != "" {
			observe("%d %s PANIC %s", i, st.Method, firstLines(pan, 3))
			continue
		}
		if st.Kind == "shared-listing" {
			// a listing of the shared collection: what it says about THIS task's
			// members must be what it says when the task runs alone
			observe("%d %s (own members) = %s", i, st.Method, t.ownMembers(resp))
			continue
		}
		observe("%d %s = %s", i, st.Method, t.normResponse(resp))
	}
}

// ExecuteConc runs a concurrent plan, then every task alone, and compares.
func ExecuteConc(t *testing.T, plan *Plan, opts Opts) *RunResult {
	planHost = "dav.test"
	res := &RunResult{Log: &Log{}, Stats: NewStats()}
	res.Stats.Runs = 1
	var conc *concResult
	var infra string
	dav := plan.Config.Server == "caldav" || plan.Config.Server == "carddav"
	res.Bubble = rt.Bubble(t, func() {
		if dav {
			conc, infra = runDavTasks(plan, plan.Tasks, res.Log)
		} else {
			conc, infra = runTasks(plan, plan.Tasks, opts.Base, res.Log)
		}
	})
	if !res.Bubble.Stuck {
		simos.Hook = nil
	}
	add := func(v Violation) {
		if opts.Own == "" || v.Prop == opts.Own {
			res.Violations = append(res.Violations, v)
			res.Log.Lines = append(res.Log.Lines, "VIOLATION "+firstLines(v.String(), 1))
		} else {
			res.Stats.Foreign[v.Prop+"/"+v.Clause]++
		}
	}
	if res.Bubble.Panic != nil {
		res.Infra = "panic in the harness: " + res.Bubble.PanicText
		return res
	}
	if res.Bubble.Stuck {
		res.Stats.Deadlocks++
		res.Stuck = true
		lib := rt.LibraryGoroutines(res.Bubble.Stacks)
		if len(lib) == 0 {
			res.Infra = "a concurrent run made no progress for " + rt.StuckAfter.String() + " and no goroutine is inside the library:\n" + firstLines(res.Bubble.Stacks, 80)
			return res
		}
		add(Violation{Prop: "C18", Clause: "interference", Class: "stuck " + stuckClass(lib), Msg: fmt.Sprintf("the concurrent run made no progress for %v of real time: a request of one task waits for something (typically a lock) that another task's request holds while that one waits for its own client. Goroutines inside the library:\n%s", rt.StuckAfter, firstLines(strings.Join(lib, "\n\n"), 70))})
		return res
	}
	if res.Bubble.Deadlock || res.Bubble.Leftover {
		res.Stats.Deadlocks++
		add(Violation{Prop: "C18", Clause: "upload-hang", Class: "concurrent", Msg: "the concurrent run never finished (all goroutines blocked):\n" + firstLines(strings.Join(rt.LibraryGoroutines(res.Bubble.Stacks), "\n\n"), 60)})
		return res
	}
	if infra != "" {
		res.Infra = infra
		return res
	}
	for _, tp := range plan.Tasks {
		res.Stats.Steps += len(tp.Steps)
	}
	res.Stats.SeamCalls = conc.hops
	res.Stats.shape(conc.order)
	res.Stats.Probes[fmt.Sprintf("tasks=%d", len(plan.Tasks))]++
	switches := 0
	for i := 1; i < len(conc.order); i++ {
		switches++
	}
	res.Stats.Probes["cross-task-switches"] += switches
	if len(conc.logs) > 0 {
		res.Stats.FakeNS += conc.logs[len(conc.logs)-1].at - int64(time.Hour)
	}

	// every task alone, same plan, its own bubble
	for i := range plan.Tasks {
		tp := plan.Tasks[i]
		var solo *concResult
		var sinfra string
		b := rt.Bubble(t, func() {
			if dav {
				solo, sinfra = runDavTasks(plan, []TaskPlan{tp}, nil)
			} else {
				solo, sinfra = runTasks(plan, []TaskPlan{tp}, opts.Base, nil)
			}
		})
		simos.Hook = nil
		if b.Panic != nil || sinfra != "" {
			res.Infra = "solo run failed: " + b.PanicText + sinfra
			return res
		}
		if b.Deadlock || b.Leftover {
			add(Violation{Prop: "C18", Clause: "upload-hang", Class: "solo", Msg: "a solo run never finished"})
			return res
		}
		class := fmt.Sprintf("tasks=%d", len(plan.Tasks))
		if dav {
			class = plan.Config.Server + " " + class
		}
		co, so := conc.obs[i], solo.obs[0]
		for k := 0; k < len(co) || k < len(so); k++ {
			var a, bb string
			if k < len(co) {
				a = co[k]
			}
			if k < len(so) {
				bb = so[k]
			}
			if a != bb {
				add(Violation{Prop: "C18", Clause: "interference", Class: class + " " + opName(&tp, k), Step: k,
					Msg: fmt.Sprintf("task %d, operation %d: concurrently with %d other task(s) it observed\n    %s\nalone it observes\n    %s", tp.ID, k, len(plan.Tasks)-1, clipS(a, 700), clipS(bb, 700))})
				return res
			}
		}
		if d := model.DiffSnap(solo.final[0], conc.final[i]); d != "" && !dav {
			add(Violation{Prop: "C18", Clause: "interference", Class: class + " final-tree",
				Msg: fmt.Sprintf("task %d: its subtree after the concurrent run differs from the one after its solo run: %s", tp.ID, d)})
			return res
		}
		res.Stats.NT(fmt.Sprintf("C18|conc|%s", conc.order))
	}
	return res
}

// stuckClass names what the stuck library goroutines wait in.
func stuckClass(lib []string) string {
	for _, g := range lib {
		if strings.Contains(g, "sync.(*Mutex).Lock") || strings.Contains(g, "sync.(*RWMutex)") {
			return "on-a-lock"
		}
	}
	return "elsewhere"
}

func opName(tp *TaskPlan, k int) string {
	if k >= len(tp.Steps) {
		return "?"
	}
	if a := tp.Steps[k].API; a != nil {
		return "api:" + a.Fn
	}
	return tp.Steps[k].Method
}
