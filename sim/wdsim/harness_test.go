//go:build go1.25

package wdsim

import "testing"

// Self-tests of the harness itself (run by `vcheck selftest-harness`).

func TestPlanCloneKeepsBytes(t *testing.T) {
	p := &Plan{Setup: []SetupOp{{Mkcol: "/\x80"}, {Put: "/\x81/\xff\xfe", Data: []byte{0, 1, 2}}, {Put: "/~b64:x"}},
		Steps: []Step{{API: &APICall{Fn: "Stat", Name: "a\x85b", Dest: "\xc0\xaf", Writes: []int{1, 2}}}}}
	q := p.Clone()
	if q.Setup[0].Mkcol != "/\x80" || q.Setup[1].Put != "/\x81/\xff\xfe" || q.Setup[2].Put != "/~b64:x" {
		t.Fatalf("set-up names changed: %q %q %q", q.Setup[0].Mkcol, q.Setup[1].Put, q.Setup[2].Put)
	}
	a := q.Steps[0].API
	if a.Name != "a\x85b" || a.Dest != "\xc0\xaf" || a.Fn != "Stat" || len(a.Writes) != 2 {
		t.Fatalf("API call changed: %+v", a)
	}
}

func TestNormaliseAndRefs(t *testing.T) {
	// a few fixed points of the model's own path handling
	for in, want := range map[string]string{"/a/../b": "/b", "/../a": "/a", "//a//b/": "/a/b", "/./": "/", "/a/./b/..": "/a"} {
		if got := normPath(in); got != want {
			t.Errorf("Normalise(%q) = %q, want %q", in, got, want)
		}
	}
}
