//go:build go1.25

package wdsim

import (
	"fmt"
	"io"
	"net/http"
	"strings"
	"time"
)

// modeN wires the real net/http client transport and server together over a
// simulated network, inside the bubble. The scripted server of the upload
// plan becomes an ordinary http.Handler.
type modeN struct {
	l      *simListener
	srv    *http.Server
	tr     *http.Transport
	client *http.Client
	down   bool
}

// recordingRT notes what the real transport handed back, and when.
type recordingRT struct {
	inner http.RoundTripper
	rec   *upTransport
}

func (r *recordingRT) RoundTrip(req *http.Request) (*http.Response, error) {
	r.rec.calls++
	resp, err := r.inner.RoundTrip(req)
	r.rec.returned = time.Now()
	r.rec.err = err
	if resp != nil {
		r.rec.status = resp.StatusCode
	}
	r.rec.log.Addf(1, "  real transport returns status=%d err=%v", r.rec.status, err)
	return resp, err
}

func newModeN(p *UploadPlan, rec *upTransport) *modeN {
	m := &modeN{l: newSimListener(netFaults{Capacity: p.NetCapacity, ResetUpAt: p.ResetUpAt})}
	var h http.Handler
	if p.Server == "handler" {
		h = rec.h
	} else {
		served := 0
		h = http.HandlerFunc(func(w http.ResponseWriter, r *http.Request) {
			rec.mu.Lock()
			served++
			first := served == 1
			rec.mu.Unlock()
			if first && p.Prelude != "" {
				io.Copy(io.Discard, r.Body)
				w.Header().Set("Content-Type", p.Prelude)
				w.WriteHeader(http.StatusInsufficientStorage)
				switch {
				case strings.Contains(p.Prelude, "xml"):
					// labelled XML, but not a DAV:error document, and longer than
					// anything a client reads of it
					io.WriteString(w, `<?xml version="1.0"?><html><body><h1>Insufficient Storage</h1><p>`+strings.Repeat("quota exceeded. ", 600)+`</p></body>`)
				case strings.HasPrefix(p.Prelude, "text/"):
					io.WriteString(w, strings.Repeat("quota exceeded\n", 600))
				default:
					io.WriteString(w, `{"error":"quota exceeded","detail":"`+strings.Repeat("x", 3000)+`"}`)
				}
				if f, ok := w.(http.Flusher); ok {
					f.Flush()
				}
				return
			}
			buf := make([]byte, max(1, p.ReadChunk))
			n := 0
			for p.ReadBytes < 0 || n < p.ReadBytes {
				if p.ReadLatencyNS > 0 {
					time.Sleep(aligned(1, time.Duration(p.ReadLatencyNS)))
				}
				want := len(buf)
				if p.ReadBytes >= 0 && p.ReadBytes-n < want {
					want = p.ReadBytes - n
				}
				k, err := r.Body.Read(buf[:want])
				rec.mu.Lock()
				rec.received = append(rec.received, buf[:k]...)
				if err == io.EOF {
					rec.sawEOF = true
				}
				rec.mu.Unlock()
				n += k
				if err == io.EOF {
					break
				}
				if err != nil {
					return
				}
			}
			switch p.Action {
			case "drop":
				if hj, ok := w.(http.Hijacker); ok {
					if c, _, err := hj.Hijack(); err == nil {
						c.Close()
					}
				}
				return
			case "stall":
				<-r.Context().Done()
				return
			}
			if p.AnswerDelayNS > 0 {
				time.Sleep(aligned(2, time.Duration(p.AnswerDelayNS)))
			}
			if p.Status >= 400 {
				if p.DAVError {
					w.Header().Set("Content-Type", "application/xml; charset=utf-8")
					w.WriteHeader(p.Status)
					io.WriteString(w, xmlHdr+`<D:error xmlns:D="DAV:"><D:lock-token-submitted/></D:error>`)
					return
				}
				w.Header().Set("Content-Type", "text/plain; charset=utf-8")
				w.WriteHeader(p.Status)
				io.WriteString(w, "scripted refusal\n")
				return
			}
			status := p.Status
			if status < 200 || status == 204 || status == 304 {
				if status < 200 {
					status = 200
				}
			}
			w.WriteHeader(status)
			if p.RespBody != "" && status/100 == 2 && status != 204 {
				// a success with a (useless) body, sent at once; then the server
				// neither reads the rest of the upload nor lets go of the connection
				io.WriteString(w, "stored, thank you\n")
				if f, ok := w.(http.Flusher); ok {
					f.Flush()
				}
				<-r.Context().Done()
			}
		})
	}
	m.srv = &http.Server{Handler: h}
	go m.srv.Serve(m.l)
	m.tr = &http.Transport{DialContext: m.l.Dial, DisableKeepAlives: !p.KeepAlive, DisableCompression: true}
	if p.Prelude != "" {
		m.tr.MaxConnsPerHost = 1
	}
	m.client = &http.Client{Transport: &recordingRT{inner: m.tr, rec: rec}}
	return m
}

func (m *modeN) shutdown() {
	if m.down {
		return
	}
	m.down = true
	m.srv.Close()
	m.tr.CloseIdleConnections()
	m.l.shutdown()
}

var _ = fmt.Sprint
