//go:build go1.25

package wdsim

import (
	"fmt"
	realos "os"
	"strings"

	"github.com/emersion/go-webdav/vsim/model"
	"github.com/emersion/go-webdav/vsim/rt"
)

// RootName is the name of the served directory: distinctive, so that it cannot
// occur in a response by accident.
const RootName = "Zq7RootZq7"

// gen is the model-guided plan generator. It keeps its own copy of the
// reference model, advanced as a conforming server would behave, so that most
// operations address existing resources. The executor never consults it.
type gen struct {
	r          *rt.Rand
	j          *model.Judge
	plan       *Plan
	names      []string
	seq        int
	wide       string // the wide collection of this plan's set-up, if any
	tier       string
	weights    []int
	maxSize    int
	exotic     bool // special characters in names
	spellP     float64
	bodyFaultP float64 // share of PUTs whose body stream breaks
	respCutP   float64 // share of read-only requests whose client goes away while the answer is written
	noEscape   bool    // never spell a path with more dot-dot segments than it has (tasks confined to a subtree)
}

var plainNames = []string{"a", "b", "c", "d"}
var specialNames = []string{"a b", "p%q", "h#h", "q?q", "s;s", "x+y", "q\"q", "<&>", "ü", ".dot", "...", "é.txt", "f.html", "t.txt", "j.json", "a:b", "w\\x", "x=y&z", "~t", "it's", "%41", "a%2fb", "日本", " lead", "trail ", ".webdav-upload-0", ".webdav-upload-a", ".webdav-upload-1",
	// names that collide only after some normalisation nobody asked for: case, Unicode composition, trailing dot
	"A", "a.", "e\u0301.txt", "T.TXT", "\u212b", "\u00c5", "A\u030a"}

var methods = []string{"OPTIONS", "GET", "HEAD", "PUT", "DELETE", "MKCOL", "COPY", "MOVE", "PROPFIND", "OTHER"}

// randomName draws a file name from the whole range of what a Linux directory
// entry may be: arbitrary Unicode (BMP, astral, combining marks, bidi controls,
// no-break and zero-width characters), ASCII punctuation, control characters
// and, rarely, bytes that are not valid UTF-8 - but no '/' and no NUL.
func randomName(r *rt.Rand) string {
	var b []byte
	n := 1 + r.Intn(6)
	for i := 0; i < n; i++ {
		switch r.Weighted([]int{30, 20, 15, 8, 8, 6, 6, 4, 3}) {
		case 0:
			b = append(b, "abcxyzABC019"[r.Intn(12)])
		case 1:
			b = append(b, " !\"#$%&'()*+,-.:;<=>?@[\\]^_`{|}~"[r.Intn(31)])
		case 2:
			b = append(b, string(rune(0xa0+r.Intn(0x2000)))...)
		case 3:
			b = append(b, string(rune(0x4e00+r.Intn(0x5000)))...)
		case 4:
			b = append(b, string(rune(0x1f300+r.Intn(0x400)))...)
		case 5:
			b = append(b, string(rune(0x300+r.Intn(0x70)))...) // combining marks
		case 6:
			b = append(b, string([]rune{0x200b, 0x200d, 0x200e, 0x202e, 0xfeff, 0x2028, 0x85, 0xad}[r.Intn(8)])...)
		case 7:
			b = append(b, byte(1+r.Intn(31))) // control characters
		case 8:
			b = append(b, byte(0x80+r.Intn(0x80))) // not UTF-8
		}
	}
	s := string(b)
	if s == "." || s == ".." {
		s += "x"
	}
	return s
}

func newGen(seed uint64, tier, property, profile string) *gen {
	g := &gen{r: rt.NewRand(seed), j: model.NewJudge(), tier: tier}
	g.plan = &Plan{Format: 1, Property: property, Profile: profile, RunSeed: seed,
		Config: Config{Store: "localfs", RootName: RootName, Judge: true, Clients: 1 + g.r.Intn(4)}}
	// swarm: name alphabet
	switch g.r.Intn(4) {
	case 0:
		g.names = plainNames[:2]
		g.plan.Config.Alphabet = "plain2"
	case 1:
		g.names = plainNames
		g.plan.Config.Alphabet = "plain4"
	default:
		g.exotic = true
		n := 3 + g.r.Intn(4)
		g.names = append(g.names, "a")
		for len(g.names) < n {
			c := rt.Pick(g.r, specialNames)
			if g.r.Chance(0.3) {
				c = randomName(g.r)
			}
			if g.r.Chance(0.06) {
				// as long as a file name may be (255 bytes), or nearly
				switch g.r.Intn(4) {
				case 0:
					c = strings.Repeat("L", 255)
				case 1:
					c = strings.Repeat("m", 230+g.r.Intn(26))
				case 2:
					c = strings.Repeat("\u65e5", 85) // 85 x 3 bytes
				default:
					c = strings.Repeat("n", 250) + ".txt"
				}
			}
			dup := false
			for _, x := range g.names {
				if x == c {
					dup = true
				}
			}
			if !dup {
				g.names = append(g.names, c)
			}
		}
		g.plan.Config.Alphabet = "special"
	}
	// swarm: method weights
	g.weights = make([]int, len(methods))
	for i := range g.weights {
		g.weights[i] = 1 + g.r.Intn(6)
		if g.r.Chance(0.15) {
			g.weights[i] = 0
		}
	}
	g.weights[3] += 3 // PUT: keep trees alive
	g.weights[5] += 2 // MKCOL
	g.spellP = []float64{0, 0.1, 0.4}[g.r.Intn(3)]
	if g.r.Chance(0.3) {
		g.plan.Config.Host = rt.Pick(g.r, []string{"dav.test:8080", "localhost:8080", "[::1]:8080", "DAV.test", "dav.test:80"})
	}
	if g.r.Chance(0.3) {
		g.plan.Config.RootForm = rt.Pick(g.r, []string{"slash", "dot", "double", "rel-dot", "rel-name", "rel-dotslash"})
	}
	if g.r.Chance(0.5) {
		g.plan.Config.ZoneOffsetS = rt.Pick(g.r, []int{5*3600 + 1800, -8 * 3600, 3600, 14 * 3600, -3600 * 11})
	}
	g.plan.Config.Neighbour = g.r.Chance(0.25)
	g.maxSize = 64
	if g.r.Chance(0.35) {
		g.maxSize = 5000
	}
	if tier == "thorough" && g.r.Chance(0.1) {
		g.maxSize = 40000
	}
	return g
}

// ---- paths ------------------------------------------------------------------

func (g *gen) files() []string {
	var out []string
	for _, p := range g.j.T.Paths() {
		if n := g.j.T.N[p]; !n.Dir {
			out = append(out, p)
		}
	}
	return out
}

func (g *gen) dirs() []string {
	var out []string
	for _, p := range g.j.T.Paths() {
		if n := g.j.T.N[p]; n.Dir {
			out = append(out, p)
		}
	}
	return out
}

func depthOf(p string) int {
	if p == "/" {
		return 0
	}
	return strings.Count(p, "/")
}

// pickPath returns a path of the requested kind (falling back sensibly).
// kinds: existing, file, dir, missing (parent exists), orphan (parent
// missing), through-file.
func (g *gen) pickPath(kind string) string {
	t := g.j.T
	switch kind {
	case "file":
		if f := g.files(); len(f) > 0 {
			return rt.Pick(g.r, f)
		}
		return g.pickPath("missing")
	case "dir":
		if g.wide != "" && t.N[g.wide] != nil && g.r.Chance(0.3) {
			return g.wide
		}
		d := g.dirs()
		if len(d) > 1 && g.r.Chance(0.9) {
			return rt.Pick(g.r, d[1:])
		}
		if len(d) > 0 {
			return rt.Pick(g.r, d)
		}
		return "/"
	case "existing":
		if g.wide != "" && t.N[g.wide] != nil && g.r.Chance(0.3) {
			// (its members outnumber everything else; the collection itself is
			// what a COPY, MOVE, DELETE or listing should meet)
			return g.wide
		}
		ps := t.Paths()
		if len(ps) > 1 {
			return rt.Pick(g.r, ps[1:])
		}
		return g.pickPath("missing")
	case "missing":
		d := g.dirs()
		if len(d) == 0 {
			return "/" + rt.Pick(g.r, g.names)
		}
		for try := 0; try < 8; try++ {
			dir := rt.Pick(g.r, d)
			if depthOf(dir) >= 4 {
				continue
			}
			p := model.Join(dir, rt.Pick(g.r, g.names))
			if t.N[p] == nil {
				return p
			}
		}
		for {
			g.seq++
			p := model.Join(rt.Pick(g.r, d), fmt.Sprintf("n%d", g.seq))
			if t.N[p] == nil {
				return p
			}
		}
	case "orphan":
		base := g.pickPath("missing")
		return model.Join(base, rt.Pick(g.r, g.names))
	case "through-file":
		if f := g.files(); len(f) > 0 {
			return model.Join(rt.Pick(g.r, f), rt.Pick(g.r, g.names))
		}
		return g.pickPath("orphan")
	}
	return "/"
}

func (g *gen) anyTarget() string {
	k := g.r.Weighted([]int{50, 22, 8, 6, 2})
	switch k {
	case 0:
		return g.pickPath("existing")
	case 1:
		return g.pickPath("missing")
	case 2:
		return g.pickPath("orphan")
	case 3:
		return g.pickPath("through-file")
	}
	return "/"
}

const unreserved = "ABCDEFGHIJKLMNOPQRSTUVWXYZabcdefghijklmnopqrstuvwxyz0123456789-._~"
const subdelims = "!$&'()*+,;=:@"

func (g *gen) encodeSeg(s string, vary bool) string {
	var b strings.Builder
	upper := !vary || g.r.Chance(0.5)
	for i := 0; i < len(s); i++ {
		c := s[i]
		switch {
		case strings.IndexByte(unreserved, c) >= 0:
			if vary && g.r.Chance(0.08) {
				b.WriteString(hexEsc(c, upper))
			} else {
				b.WriteByte(c)
			}
		case strings.IndexByte(subdelims, c) >= 0 && vary && g.r.Chance(0.5):
			b.WriteByte(c)
		default:
			b.WriteString(hexEsc(c, upper))
		}
	}
	return b.String()
}

func hexEsc(c byte, upper bool) string {
	if upper {
		return fmt.Sprintf("%%%02X", c)
	}
	return fmt.Sprintf("%%%02x", c)
}

// spell writes a resource path as a request-target (or the path part of a
// Destination), with seeded spelling variations that do not change which
// resource is meant.
func (g *gen) spell(p string) string {
	vary := g.r.Chance(g.spellP)
	if p == "/" {
		if vary && g.r.Chance(0.3) {
			return rt.Pick(g.r, []string{"//", "/.", "/./", "/a/.."})
		}
		return "/"
	}
	segs := strings.Split(strings.TrimPrefix(p, "/"), "/")
	var b strings.Builder
	if vary && !g.noEscape && g.r.Chance(0.06) {
		// more dot-dot segments than there is path: clamped at the root (RFC 3986
		// 5.2.4); a server may also refuse it
		b.WriteString(rt.Pick(g.r, []string{"/..", "/../..", "/zz/../.."}))
	}
	for _, s := range segs {
		b.WriteByte('/')
		if vary {
			switch g.r.Intn(12) {
			case 0:
				b.WriteString("/")
			case 1:
				b.WriteString("./")
			case 2:
				b.WriteString("zz/../")
			}
		}
		b.WriteString(g.encodeSeg(s, vary))
	}
	if vary && g.r.Chance(0.25) {
		b.WriteString(rt.Pick(g.r, []string{"/", "/.", "//"}))
	}
	return b.String()
}

func (g *gen) content() []byte {
	g.seq++
	size := 0
	switch g.r.Weighted([]int{1, 2, 6, 3, 1}) {
	case 0:
		size = 0
	case 1:
		size = 1 + g.r.Intn(4)
	case 2:
		size = 5 + g.r.Intn(60)
	case 3:
		size = g.r.Range(64, g.maxSize)
	case 4:
		// buffer edges: a page, io.Copy's 32 KiB buffer, two and three of them
		size = rt.Pick(g.r, []int{4095, 4096, 4097, 32767, 32768, 32769, 32767, 32768, 32769, 65535, 65536, 65537, 98305})
		if size > g.maxSize*24 {
			size = g.maxSize
		}
	}
	head := fmt.Sprintf("v%d:", g.seq)
	if size == 0 {
		return nil
	}
	b := make([]byte, size)
	for i := range b {
		if i < len(head) {
			b[i] = head[i]
		} else {
			b[i] = "abcdefghijklmnopqrstuvwxyz\n"[(i*7+g.seq)%27]
		}
	}
	// content is not always text: runs of NUL bytes (sparse files, padded
	// archives), arbitrary binary
	switch g.r.Weighted([]int{80, 5, 5, 5, 5, 3}) {
	case 5: // whole blocks, the last one (or two) all zeros: what a sparse-aware copy seeks over
		k := 1 + g.r.Intn(4)
		blk := rt.Pick(g.r, []int{512, 4096, 4096, 4096})
		nb := make([]byte, k*blk)
		for i := range nb {
			nb[i] = b[i%len(b)]
		}
		if nb[0] == 0 {
			nb[0] = 'x'
		}
		for i := len(nb) - blk*(1+g.r.Intn(min(2, k))); i >= 0 && i < len(nb); i++ {
			nb[i] = 0
		}
		b = nb
	case 1: // all zeros
		for i := range b {
			b[i] = 0
		}
	case 2: // trailing zeros
		for i := len(b) - 1 - g.r.Intn(len(b)); i >= 0 && i < len(b); i++ {
			b[i] = 0
		}
	case 3: // leading zeros
		for i := 0; i < 1+g.r.Intn(len(b)); i++ {
			b[i] = 0
		}
	case 4:
		copy(b, g.r.Bytes(len(b)))
	}
	return b
}

func (g *gen) delay() int64 {
	switch g.r.Weighted([]int{3, 3, 2, 1, 1}) {
	case 0:
		return 1 + int64(g.r.Intn(1000))
	case 1:
		return int64(g.r.Range(1, 999)) * 1e6
	case 2:
		return int64(g.r.Range(1, 50)) * 1e9
	case 3:
		return int64(g.r.Range(1, 48)) * 3600e9
	}
	return 1
}

// ---- header values ------------------------------------------------------------

func (g *gen) depthHeader(method string) (string, bool) {
	switch g.r.Weighted([]int{40, 12, 12, 14, 8, 1}) {
	case 0:
		return "", false
	case 1:
		return "0", true
	case 2:
		return "1", true
	case 3:
		return "infinity", true
	case 4:
		return rt.Pick(g.r, []string{"2", "-1", "inf", "infinite", "00", "0,1", "1.0", "x", "01"}), true
	}
	return "Infinity", true
}

func (g *gen) overwriteHeader() (string, bool) {
	switch g.r.Weighted([]int{35, 25, 30, 8, 1}) {
	case 0:
		return "", false
	case 1:
		return "T", true
	case 2:
		return "F", true
	case 3:
		return rt.Pick(g.r, []string{"X", "true", "TF", "0", "yes", "False", "T,F"}), true
	}
	return rt.Pick(g.r, []string{"t", "f"}), true
}

func (g *gen) destinationHeader(p string) (string, bool) {
	sp := g.spell(p)
	for strings.HasPrefix(sp, "//") {
		// a scheme-less value starting with "//" is a network-path reference
		// (RFC 3986): it names another authority, not this path
		sp = sp[1:]
	}
	switch g.r.Weighted([]int{45, 40, 4, 3, 3, 2, 1}) {
	case 0:
		return sp, true
	case 1:
		host := "dav.test"
		if g.plan.Config.Host != "" {
			host = g.plan.Config.Host
		}
		return "http://" + host + sp, true
	case 2:
		return "", false
	case 3:
		return rt.Pick(g.r, []string{"b", "../x", "a/b", "http:", "::", "%zz", "http://dav.test/%zz", "/a%"}), true
	case 4:
		return "https://dav.test:8443" + sp, true
	case 5:
		return sp + "?x=1", true
	}
	return sp + "#frag", true
}

var propNames = [][2]string{
	{"DAV:", "resourcetype"}, {"DAV:", "getcontentlength"}, {"DAV:", "getlastmodified"},
	{"DAV:", "getcontenttype"}, {"DAV:", "getetag"}, {"DAV:", "displayname"}, {"urn:x-vsim", "colour"},
}

func (g *gen) propfindBody() (body []byte, ctype string) {
	pfx := rt.Pick(g.r, []string{"D", "d", "x", ""})
	open := func(local string) string {
		if pfx == "" {
			return "<" + local + ` xmlns="DAV:">`
		}
		return "<" + pfx + ":" + local + " xmlns:" + pfx + `="DAV:">`
	}
	tag := func(local string) string {
		if pfx == "" {
			return local
		}
		return pfx + ":" + local
	}
	hdr := rt.Pick(g.r, []string{`<?xml version="1.0" encoding="utf-8"?>`, `<?xml version="1.0"?>` + "\n", ""})
	ctype = rt.Pick(g.r, []string{"application/xml", "text/xml", `application/xml; charset="utf-8"`, `text/xml; charset=utf-8`,
		// media types and parameter names are case-insensitive, blanks around ';' are allowed
		"Application/XML", "text/XML; charset=UTF-8", "APPLICATION/XML", `application/xml ; Charset="utf-8"`, "text/xml;charset=utf-8"})
	switch g.r.Weighted([]int{30, 14, 14, 30, 4, 4, 4}) {
	case 0:
		return nil, ""
	case 1:
		return []byte(hdr + open("propfind") + "<" + tag("allprop") + "/></" + tag("propfind") + ">"), ctype
	case 2:
		return []byte(hdr + open("propfind") + "<" + tag("propname") + "/></" + tag("propfind") + ">"), ctype
	case 3:
		var b strings.Builder
		b.WriteString(hdr + open("propfind") + "<" + tag("prop") + ">")
		n := 0
		for _, pn := range propNames {
			if g.r.Chance(0.5) {
				continue
			}
			n++
			if pn[0] == "DAV:" {
				b.WriteString("<" + tag(pn[1]) + "/>")
			} else {
				b.WriteString("<c:" + pn[1] + ` xmlns:c="` + pn[0] + `"/>`)
			}
		}
		if n == 0 {
			b.WriteString("<" + tag("resourcetype") + "/>")
		}
		b.WriteString("</" + tag("prop") + "></" + tag("propfind") + ">")
		return []byte(b.String()), ctype
	case 4:
		return []byte(hdr + open("propfind") + "</" + tag("propfind") + ">"), ctype
	case 5:
		return []byte(hdr + open("propfind") + "<" + tag("allprop") + ">"), ctype
	}
	return []byte(hdr + open("other") + "</" + tag("other") + ">"), ctype
}

// ---- steps ------------------------------------------------------------------

func (g *gen) newStep(method, target string) *Step {
	return &Step{Client: g.r.Intn(g.plan.Config.Clients), DelayNS: g.delay(), Method: method, Target: target}
}

func (s *Step) set(name, value string) { s.Headers = append(s.Headers, [2]string{name, value}) }

// commit appends a step to the plan and advances the generator's model as a
// conforming server would.
func (g *gen) commit(st *Step, hints map[string]string) {
	if st.Method == "DELETE" && g.plan.Config.RootForm == "rel-dot" {
		if ref := model.ParseHref(st.Target); ref.OK && model.Normalise(ref.Path).Path == "/" {
			st.Method = "OPTIONS" // see genRequest: "." cannot be removed
		}
	}
	g.passerbyHeaders(st)
	g.plan.Steps = append(g.plan.Steps, *st)
	planHost = "dav.test"
	if g.plan.Config.Host != "" {
		planHost = g.plan.Config.Host
	}
	req, why := buildRequest(st)
	if req == nil {
		_ = why
		return
	}
	mr := &model.Request{Method: req.Method, Path: req.URL.Path, Host: req.Host, H: headerMap(req), Body: st.Body, CondHint: hints}
	for _, f := range st.Faults {
		switch {
		case f.Seam == "req-body" && f.Kind == "clean-eof":
			if f.At < len(st.Body) {
				mr.Body = st.Body[:f.At]
			}
		case f.Seam == "req-body" && (f.Kind == "cancel-silent" || f.Kind == "cancel-at-eof"):
			// the stream stays healthy: a server that ignores the context carries it out
		case f.Seam == "req-body":
			mr.BodyBroken = true
		case f.Seam == "disk":
			return // outcome unknown: assume nothing changed
		}
	}
	g.j.Advance(mr)
}

func (g *gen) chunk() int {
	switch g.r.Weighted([]int{5, 2, 2, 2}) {
	case 1:
		return 1
	case 2:
		return -(1 + g.r.Intn(64))
	case 3:
		return rt.Pick(g.r, []int{7, 512, 4096, 32768})
	}
	return 0
}

// genRequest produces one request of the general (C01) workload.
func (g *gen) genRequest() *Step {
	m := methods[g.r.Weighted(g.weights)]
	switch m {
	case "OPTIONS", "GET", "HEAD":
		p := g.anyTarget()
		if m != "OPTIONS" && g.r.Chance(0.5) {
			p = g.pickPath("file")
		}
		return g.newStep(m, g.spell(p))
	case "PUT":
		var p string
		switch g.r.Weighted([]int{40, 35, 8, 6, 8, 1}) {
		case 0:
			p = g.pickPath("missing")
		case 1:
			p = g.pickPath("file")
		case 2:
			p = g.pickPath("dir")
		case 3:
			p = g.pickPath("orphan")
		case 4:
			p = g.pickPath("through-file")
		default:
			p = "/"
		}
		st := g.newStep("PUT", g.spell(p))
		st.Body = g.content()
		st.Chunk = g.chunk()
		st.Chunked = g.r.Chance(0.2)
		if g.r.Chance(0.3) {
			st.set("Content-Type", rt.Pick(g.r, []string{"text/plain", "application/octet-stream"}))
		}
		if g.bodyFaultP > 0 && g.r.Chance(g.bodyFaultP) {
			st.Faults = []Fault{g.bodyFault(len(st.Body))}
		}
		return st
	case "DELETE":
		p := g.anyTarget()
		if p == "/" && (g.r.Chance(0.97) || g.plan.Config.RootForm == "rel-dot") {
			// (served as ".", the directory is the working directory of the
			// process, which no operating system removes by that name: deleting
			// the root is then not something the file server can be asked for)
			p = g.pickPath("existing")
			if p == "/" {
				p = g.pickPath("missing")
			}
		}
		return g.newStep("DELETE", g.spell(p))
	case "MKCOL":
		var p string
		switch g.r.Weighted([]int{60, 15, 10, 10, 5}) {
		case 0:
			p = g.pickPath("missing")
		case 1:
			p = g.pickPath("existing")
		case 2:
			p = g.pickPath("orphan")
		case 3:
			p = g.pickPath("through-file")
		default:
			p = "/"
		}
		st := g.newStep("MKCOL", g.spell(p))
		if g.r.Chance(0.1) {
			st.set("Content-Type", rt.Pick(g.r, []string{"application/xml", "text/plain"}))
			st.Body = []byte(`<?xml version="1.0"?><D:mkcol xmlns:D="DAV:"/>`)
		}
		return st
	case "COPY", "MOVE":
		var src string
		switch g.r.Weighted([]int{80, 10, 5, 4, 1}) {
		case 0:
			src = g.pickPath("existing")
		case 1:
			src = g.pickPath("missing")
		case 2:
			src = g.pickPath("orphan")
		case 3:
			src = g.pickPath("through-file")
		default:
			src = "/"
		}
		var dst string
		switch g.r.Weighted([]int{35, 25, 8, 8, 8, 6, 6, 2}) {
		case 0:
			dst = g.pickPath("missing")
		case 1:
			dst = g.pickPath("existing")
		case 2:
			dst = src // self
		case 3: // descendant of the source
			dst = model.Join(src, rt.Pick(g.r, g.names))
			if src == "/" {
				dst = "/" + rt.Pick(g.r, g.names)
			}
			if sub := g.j.T.Sub(src); len(sub) > 1 && g.r.Chance(0.5) {
				dst = model.Join(rt.Pick(g.r, sub), rt.Pick(g.r, g.names))
			}
		case 4: // ancestor of the source
			dst = model.Parent(src)
			if g.r.Chance(0.3) {
				dst = model.Parent(dst)
			}
		case 5:
			dst = g.pickPath("orphan")
		case 6:
			dst = g.pickPath("through-file")
		default:
			dst = "/"
		}
		st := g.newStep(m, g.spell(src))
		if v, ok := g.destinationHeader(dst); ok {
			st.set("Destination", v)
		}
		if v, ok := g.overwriteHeader(); ok {
			st.set("Overwrite", v)
		}
		if v, ok := g.depthHeader(m); ok && (m == "COPY" || g.r.Chance(0.4)) {
			st.set("Depth", v)
		}
		return st
	case "PROPFIND":
		p := g.anyTarget()
		if g.r.Chance(0.4) {
			p = g.pickPath("dir")
		}
		st := g.newStep("PROPFIND", g.spell(p))
		if v, ok := g.depthHeader("PROPFIND"); ok {
			st.set("Depth", v)
		}
		body, ct := g.propfindBody()
		if body != nil {
			st.Body = body
			st.set("Content-Type", ct)
			st.Chunk = g.chunk()
			st.Chunked = g.r.Chance(0.2)
		} else if g.r.Chance(0.15) {
			// no body, but framed as a chunked one of length zero (no announced length)
			st.Chunked, st.Kind = true, "empty-chunked"
		}
		return st
	}
	other := rt.Pick(g.r, []string{"POST", "PATCH", "LOCK", "UNLOCK", "REPORT", "MKCALENDAR", "FOO", "TRACE", "get", "Put", "PROPPATCH", "SEARCH", "ACL"})
	st := g.newStep(other, g.spell(g.anyTarget()))
	if other == "PROPPATCH" {
		st.Body = []byte(`<?xml version="1.0"?><D:propertyupdate xmlns:D="DAV:"><D:set><D:prop><D:displayname>x</D:displayname></D:prop></D:set></D:propertyupdate>`)
		st.set("Content-Type", "application/xml")
	}
	return st
}

// genSetup builds a small initial tree so that runs start in varied states.
func (g *gen) genSetup() {
	n := g.r.Weighted([]int{2, 2, 3, 3, 2, 2, 1, 1})
	if g.tier == "thorough" && g.r.Chance(0.3) {
		n += g.r.Intn(10)
	}
	for i := 0; i < n; i++ {
		if g.r.Chance(0.4) {
			p := g.pickPath("missing")
			g.plan.Setup = append(g.plan.Setup, SetupOp{Mkcol: p})
			g.j.T.Mkcol(p)
		} else {
			p := g.pickPath("missing")
			d := g.content()
			op := SetupOp{Put: p, Data: d}
			if g.r.Chance(0.15) {
				// files that were not written "now": restored backups, clock trouble
				op.MTime = rt.Pick(g.r, []string{"epoch", "ancient", "future", "odd-ns"})
			}
			g.plan.Setup = append(g.plan.Setup, op)
			g.j.T.PutFile(p, d)
		}
	}
	if g.r.Chance(0.04) {
		g.deepChain()
	}
	if g.r.Chance(0.03) || realos.Getenv("VSIM_FORCE_WIDE") != "" {
		g.wideCollection()
	}
	if g.r.Chance(0.08) {
		g.twins()
	}
}

// wideCollection: one collection with far more members than requests ever put
// into one in a run: batch sizes, worker pools, caps and "first N" short cuts
// only show against such a listing. Mostly dozens to hundreds, rarely thousands.
func (g *gen) wideCollection() {
	n := rt.Pick(g.r, []int{63, 64, 65, 129, 150, 257, 300, 1000, 1100, 2049, 2100})
	if g.r.Chance(0.08) {
		n = rt.Pick(g.r, []int{4200, 10001, 10100})
	}
	if s := realos.Getenv("VSIM_FORCE_WIDE"); s != "" {
		fmt.Sscanf(s, "%d", &n) // experiments only
	}
	p := g.pickPath("missing")
	for depthOf(p) > 2 {
		p = model.Parent(p)
	}
	if g.j.T.N[p] != nil {
		return
	}
	g.plan.Setup = append(g.plan.Setup, SetupOp{Mkcol: p})
	g.j.T.Mkcol(p)
	g.wide = p
	sub := p
	for i := 0; i < n; i++ {
		if i%97 == 50 {
			// a few sub-collections, so that "descendants" and "members" differ
			sub = model.Join(p, fmt.Sprintf("s%05d", i))
			g.plan.Setup = append(g.plan.Setup, SetupOp{Mkcol: sub})
			g.j.T.Mkcol(sub)
			continue
		}
		dir := p
		if i%97 > 50 && i%97 < 60 {
			dir = sub
		}
		f := model.Join(dir, fmt.Sprintf("m%05d", i))
		d := []byte(fmt.Sprintf("w%d", i))
		g.plan.Setup = append(g.plan.Setup, SetupOp{Put: f, Data: d})
		g.j.T.PutFile(f, d)
	}
}

// twins: two collections whose members have the same names but not the same
// kinds and contents: what a COPY or MOVE of one onto the other has to replace
// as a whole, and what a member-by-member merge gets wrong half-way.
func (g *gen) twins() {
	a, b := g.pickPath("missing"), ""
	for depthOf(a) > 2 {
		a = model.Parent(a)
	}
	if g.j.T.N[a] != nil {
		return
	}
	g.plan.Setup = append(g.plan.Setup, SetupOp{Mkcol: a})
	g.j.T.Mkcol(a)
	b = g.pickPath("missing")
	for depthOf(b) > 2 {
		b = model.Parent(b)
	}
	if g.j.T.N[b] != nil || b == a || model.IsAncestor(a, b) || model.IsAncestor(b, a) {
		return
	}
	g.plan.Setup = append(g.plan.Setup, SetupOp{Mkcol: b})
	g.j.T.Mkcol(b)
	names := []string{"a", "b", "c", "d", "e"}
	for i, n := range names[:3+g.r.Intn(3)] {
		for k, top := range []string{a, b} {
			p := model.Join(top, n)
			asDir := (i+k)%2 == 0 && i > 0 && g.r.Chance(0.7)
			if i == 0 || !asDir {
				d := g.content()
				g.plan.Setup = append(g.plan.Setup, SetupOp{Put: p, Data: d})
				g.j.T.PutFile(p, d)
				continue
			}
			g.plan.Setup = append(g.plan.Setup, SetupOp{Mkcol: p})
			g.j.T.Mkcol(p)
			d := g.content()
			g.plan.Setup = append(g.plan.Setup, SetupOp{Put: model.Join(p, "inner"), Data: d})
			g.j.T.PutFile(model.Join(p, "inner"), d)
		}
	}
}

// deepChain: a collection nested far deeper than requests ever build one in a
// run (an unpacked archive, a mirrored source tree): 50-120 levels, rarely a
// few hundred, short names, a file at the bottom and one on the way.
func (g *gen) deepChain() {
	depth := g.r.Range(50, 120)
	if g.r.Chance(0.1) {
		depth = g.r.Range(200, 400)
	}
	p := g.pickPath("missing")
	for depthOf(p) > 2 {
		p = model.Parent(p)
	}
	if g.j.T.N[p] != nil {
		return
	}
	mid := g.r.Intn(depth)
	for i := 0; i < depth; i++ {
		g.plan.Setup = append(g.plan.Setup, SetupOp{Mkcol: p})
		g.j.T.Mkcol(p)
		if i == mid {
			f := model.Join(p, "on-the-way.txt")
			d := g.content()
			g.plan.Setup = append(g.plan.Setup, SetupOp{Put: f, Data: d})
			g.j.T.PutFile(f, d)
		}
		p = model.Join(p, rt.Pick(g.r, []string{"d", "e", "f"}))
	}
	d := g.content()
	g.plan.Setup = append(g.plan.Setup, SetupOp{Put: p, Data: d})
	g.j.T.PutFile(p, d)
}

func (g *gen) stepCount() int {
	switch g.r.Weighted([]int{5, 3, 2}) {
	case 0:
		return g.r.Range(3, 8)
	case 1:
		return g.r.Range(8, 20)
	}
	return g.r.Range(20, 40)
}

// respCut: the client of a read-only request vanishes after some body bytes.
func (g *gen) respCut(st *Step) *Step {
	if g.respCutP > 0 && g.r.Chance(g.respCutP) {
		switch st.Method {
		case "GET", "PROPFIND", "OPTIONS", "HEAD":
			at := rt.Pick(g.r, []int{0, 1, 38, 39, 100, 500, 1000, 4095, 4096})
			if g.r.Chance(0.5) {
				at = g.r.Intn(3000)
			}
			st.Faults = append(st.Faults, Fault{Seam: "resp-write", At: at, Kind: "broken-pipe"})
		}
	}
	return st
}

// GenC01 generates a fault-free history judged by the resource-tree model.
func GenC01(seed uint64, tier string) *Plan {
	g := newGen(seed, tier, "C01", "history")
	if g.r.Chance(0.5) {
		// a broken upload is a refused request like any other: the model demands
		// a status >= 400 and an unchanged tree
		g.bodyFaultP = 0.08
	}
	if g.r.Chance(0.3) {
		// clients that hang up in the middle of an answer: nothing is demanded
		// of that answer, everything of the ones after it
		g.respCutP = 0.15
	}
	gone := g.r.Chance(0.25)
	g.genSetup()
	n := g.stepCount()
	for i := 0; i < n; i++ {
		st := g.respCut(g.genRequest())
		if gone {
			// requests whose context is cancelled while every stream stays
			// healthy: carried out as the model says, or refused (>= 400) with
			// the tree unchanged
			st = g.goneClient(st)
		}
		g.commit(st, nil)
	}
	return g.plan
}

// passerbyHeaders adds, to a few requests, a header that clients and proxies
// send for reasons of their own and that changes nothing about what the
// request asks for: the answer must be what it is without it.
func (g *gen) passerbyHeaders(st *Step) {
	if st.Method == "" || !g.r.Chance(0.05) {
		return
	}
	has := func(h string) bool {
		for _, kv := range st.Headers {
			if strings.EqualFold(kv[0], h) {
				return true
			}
		}
		return false
	}
	switch g.r.Intn(8) {
	case 0:
		if st.Method == "PUT" && len(st.Body) > 0 && !has("Expect") {
			st.set("Expect", "100-continue")
		}
	case 1:
		if !has("Connection") {
			st.set("Connection", rt.Pick(g.r, []string{"close", "keep-alive"}))
		}
	case 2:
		// (no Accept-Encoding: gzip here - a server that then compresses its
		// answers is a conformant one, and the oracles read plain bodies)
		st.set("Accept-Encoding", "identity")
	case 3:
		st.set("Translate", "f")
	case 4:
		st.set("Cache-Control", rt.Pick(g.r, []string{"no-cache", "max-age=0", "no-store"}))
		st.set("Pragma", "no-cache")
	case 5:
		st.set("X-Forwarded-For", "203.0.113.7")
		st.set("Via", "1.1 proxy.example")
	case 6:
		st.set("Accept", rt.Pick(g.r, []string{"*/*", "text/xml", "application/json;q=0.1"}))
		st.set("Accept-Language", "de, en;q=0.5")
	case 7:
		st.set("User-Agent", "Microsoft-WebDAV-MiniRedir/10.0.19045")
		st.set("Authorization", "Basic dXNlcjpwdw==")
	}
}
