//go:build go1.25

// Package wdsim simulates the WebDAV file server and client of go-webdav:
// caller nodes -> (real webdav.Client) -> simulated transport -> real
// webdav.Handler -> real LocalFileSystem -> disk seam -> kernel tmpfs, all
// inside one synctest bubble, driven by a plan that is pure data.
package wdsim

import (
	"encoding/base64"
	"encoding/json"
	"fmt"
	"strings"
	"unicode/utf8"
)

// Fault is one injected fault, addressed to a seam call inside a step.
type Fault struct {
	Seam string `json:"seam"`           // "req-body" | "disk" | "resp" | "transport"
	At   int    `json:"at"`             // req-body/resp: byte offset; disk: ordinal of the seam call inside the step
	Kind string `json:"kind"`           // see faults.go
	Arg  int    `json:"arg,omitempty"`  // short write: bytes really written; status for resp replace
	Op   string `json:"op,omitempty"`   // disk: only when the call's op matches (informational after execution)
	Note string `json:"note,omitempty"` // filled in by the executor: what the fault hit
	Trip int    `json:"trip,omitempty"` // resp/transport: which round trip of the call (0 = first)
	Sel  int    `json:"sel,omitempty"`  // multi-status rewriting: which property
}

// APICall is one call of the public webdav.Client API.
type APICall struct {
	Fn          string `json:"fn"` // Stat ReadDir Open Create Mkdir RemoveAll Copy Move
	Name        string `json:"name"`
	Dest        string `json:"dest,omitempty"`
	Recursive   bool   `json:"recursive,omitempty"`
	NoRecursive bool   `json:"no_recursive,omitempty"`
	NoOverwrite bool   `json:"no_overwrite,omitempty"`
	NilOptions  bool   `json:"nil_options,omitempty"`
	Data        []byte `json:"data,omitempty"`
	Writes      []int  `json:"writes,omitempty"` // Create: sizes of the successive Write calls
}

// Step is one operation of one caller node.
type Step struct {
	Client  int         `json:"client"`
	DelayNS int64       `json:"delay_ns"` // fake time that passes before the step
	Method  string      `json:"method,omitempty"`
	Target  string      `json:"target,omitempty"` // raw request-target
	Headers [][2]string `json:"headers,omitempty"`
	Body    []byte      `json:"body,omitempty"`
	Chunk   int         `json:"chunk,omitempty"` // body chunking: 0 whole, n>0 n-byte reads, <0 seeded random sizes
	Faults  []Fault     `json:"faults,omitempty"`
	API     *APICall    `json:"api,omitempty"`
	Probe   bool        `json:"probe,omitempty"`   // harness-initiated observation, not part of the workload
	Chunked bool        `json:"chunked,omitempty"` // send the body with Transfer-Encoding: chunked (no announced length)

	// CalDAV/CardDAV/robustness workloads
	Kind      string   `json:"kind,omitempty"`      // request template
	DocEnd    int      `json:"doc_end,omitempty"`   // offset at which the body's document is complete
	Malformed string   `json:"malformed,omitempty"` // non-empty: malformed on purpose (what), must be answered 4xx
	Call      *DavCall `json:"call,omitempty"`      // C14: one client call

	// overlapping requests (C02): this request stalls in its body stream at
	// byte Gate, the During requests are served one after the other meanwhile,
	// then the stream goes on (into its fault)
	During      []Step `json:"during,omitempty"`
	Gate        int    `json:"gate,omitempty"`
	ParkAt      int    `json:"park_at,omitempty"`      // overlap, read-only A: parked just before its ParkAt-th file-system call (1-based) instead of in its body
	FromListing int    `json:"from_listing,omitempty"` // k>0: the target is the k-th href of the last multi-status answer
}

func (s *Step) Header(name string) (string, bool) {
	for _, h := range s.Headers {
		if strings.EqualFold(h[0], name) {
			return h[1], true
		}
	}
	return "", false
}

// BStr is a string that may hold bytes that are not valid UTF-8 (file names
// are byte strings). encoding/json would replace those bytes by U+FFFD, making
// two different names equal; such values travel as base64.
type BStr string

func (b BStr) MarshalJSON() ([]byte, error) {
	s := string(b)
	if utf8.ValidString(s) && !strings.HasPrefix(s, "~b64:") {
		return json.Marshal(s)
	}
	return json.Marshal("~b64:" + base64.StdEncoding.EncodeToString([]byte(s)))
}

func (b *BStr) UnmarshalJSON(data []byte) error {
	var s string
	if err := json.Unmarshal(data, &s); err != nil {
		return err
	}
	if strings.HasPrefix(s, "~b64:") {
		raw, err := base64.StdEncoding.DecodeString(s[5:])
		if err != nil {
			return err
		}
		s = string(raw)
	}
	*b = BStr(s)
	return nil
}

// SetupOp builds the initial tree directly on the store before the history.
type SetupOp struct {
	Mkcol string `json:"mkcol,omitempty"`
	Put   string `json:"put,omitempty"`
	Data  []byte `json:"data,omitempty"`
	MTime string `json:"mtime,omitempty"` // "" = the fake clock's now | "epoch" | "ancient" | "future" | "odd-ns"
}

// Config is the swarm configuration of a run.
type Config struct {
	Store     string `json:"store"`      // "localfs" | "memfs"
	RootName  string `json:"root_name"`  // name of the served directory inside the sandbox
	Endpoint  string `json:"endpoint"`   // endpoint URL given to API clients
	Mount     string `json:"mount"`      // not used by webdav.Handler (serves at /)
	Judge     bool   `json:"judge"`      // run the resource-tree model (C01/C04)
	Hostile   bool   `json:"hostile"`    // hostile-path workload: only confinement rules are judged
	Alphabet  string `json:"alphabet"`   // informational
	Clients   int    `json:"clients"`    // number of caller nodes
	MemfsSeed uint64 `json:"memfs_seed"` // metadata seed for the in-memory store

	Host        string `json:"host,omitempty"`          // Host header of raw requests (default dav.test)
	RootForm    string `json:"root_form,omitempty"`     // how the served directory is spelled in the configuration: "" clean | "slash" | "dot" | "double" | relative to the working directory: "rel-dot" (.) | "rel-name" | "rel-dotslash"
	ZoneOffsetS int    `json:"zone_offset_s,omitempty"` // local time zone of the server process (seconds east of UTC)
	Redirected  bool   `json:"redirected,omitempty"`    // concurrent plans: every answer comes from another origin than the configured endpoint (the HTTP client followed a redirect: Response.Request names https://www.<host>)
	Neighbour   bool   `json:"neighbour,omitempty"`     // a second LocalFileSystem with another root serves the same names in between
	Server      string `json:"server,omitempty"`        // "" (file server on Store) | caldav | carddav | webdav-mem | webdav-local | principal
	Prefix      string `json:"prefix,omitempty"`        // mount prefix of the CalDAV/CardDAV handler
	WorldSeed   uint64 `json:"world_seed,omitempty"`
}

// Plan is everything a run does. It is pure data: executing the same plan
// twice gives the same event log.
type Plan struct {
	Format   int       `json:"format"`
	Property string    `json:"property"`
	Profile  string    `json:"profile"`
	RunSeed  uint64    `json:"run_seed"`
	Config   Config    `json:"config"`
	Setup    []SetupOp `json:"setup,omitempty"`
	Steps    []Step    `json:"steps"`

	// concurrent engine (C18 part 1)
	Tasks     []TaskPlan `json:"tasks,omitempty"`
	SchedSeed uint64     `json:"schedule_seed,omitempty"`
	Slots     int        `json:"slots,omitempty"`     // a yield sleeps 1..Slots scheduling quanta
	Stall     float64    `json:"stall,omitempty"`     // probability that a yield turns into a long stall
	Calibrate bool       `json:"calibrate,omitempty"` // touch the deliberately racy calibration word

	// upload engine (C18 part 2)
	Upload *UploadPlan `json:"upload,omitempty"`
}

func (p *Plan) Clone() *Plan {
	b, err := json.Marshal(p)
	if err != nil {
		panic(err)
	}
	var q Plan
	if err := json.Unmarshal(b, &q); err != nil {
		panic(err)
	}
	return &q
}

// Violation is a finding that counts against the property under check.
type Violation struct {
	Prop   string `json:"property"`
	Clause string `json:"clause"`
	Class  string `json:"class"`
	Msg    string `json:"message"`
	Step   int    `json:"step"`
}

func (v *Violation) Signature() string { return v.Prop + "/" + v.Clause + " [" + v.Class + "]" }
func (v *Violation) String() string {
	return fmt.Sprintf("%s step=%d: %s", v.Signature(), v.Step, v.Msg)
}

// DavCall is one call of a public client method (C14).
type DavCall struct {
	Client string   `json:"client"` // webdav | caldav | carddav
	Fn     string   `json:"fn"`
	Path   string   `json:"path,omitempty"`
	Dest   string   `json:"dest,omitempty"`
	Paths  []string `json:"paths,omitempty"`
	Flag   bool     `json:"flag,omitempty"`
	N      int      `json:"n,omitempty"`
	Token  string   `json:"token,omitempty"`
	Data   []byte   `json:"data,omitempty"`
}

// SetupOp and APICall carry names that are byte strings: they are (un)marshalled
// through shadow types whose name fields are BStr.

type setupOpJSON struct {
	Mkcol BStr   `json:"mkcol,omitempty"`
	Put   BStr   `json:"put,omitempty"`
	Data  []byte `json:"data,omitempty"`
	MTime string `json:"mtime,omitempty"`
}

func (s SetupOp) MarshalJSON() ([]byte, error) {
	return json.Marshal(setupOpJSON{BStr(s.Mkcol), BStr(s.Put), s.Data, s.MTime})
}

func (s *SetupOp) UnmarshalJSON(b []byte) error {
	var j setupOpJSON
	if err := json.Unmarshal(b, &j); err != nil {
		return err
	}
	*s = SetupOp{Mkcol: string(j.Mkcol), Put: string(j.Put), Data: j.Data, MTime: j.MTime}
	return nil
}

type apiCallShadow APICall

type apiCallJSON struct {
	apiCallShadow
	Name BStr `json:"name"`
	Dest BStr `json:"dest,omitempty"`
}

func (a APICall) MarshalJSON() ([]byte, error) {
	return json.Marshal(apiCallJSON{apiCallShadow: apiCallShadow(a), Name: BStr(a.Name), Dest: BStr(a.Dest)})
}

func (a *APICall) UnmarshalJSON(b []byte) error {
	var j apiCallJSON
	if err := json.Unmarshal(b, &j); err != nil {
		return err
	}
	*a = APICall(j.apiCallShadow)
	a.Name, a.Dest = string(j.Name), string(j.Dest)
	return nil
}
