//go:build go1.25

// Package simos stands in for package os inside the scratch copy of go-webdav
// that the verification harness builds. The library's import of "os" is
// rewritten to this package under the local name os, so not one expression of
// the library changes. Every call that reaches the file system goes through
// the installed Seam first (yield, confinement monitor, fault plan) and is then
// passed to the real kernel file system; everything else is re-exported
// unchanged from package os.
package simos

import (
	"io"
	"io/fs"
	realos "os"
	"strconv"
	"syscall"
	"time"
)

// Call describes one file-system call at the seam.
type Call struct {
	Op       string // the op string package os would put into a PathError/LinkError
	Fn       string // API function that was called (Stat, Create, File.Write, ...)
	Path     string
	Path2    string // second path for Rename/Link/Symlink
	Flag     int    // open flags for open calls
	Writable bool   // file handle opened for writing (File.* calls) / open call that can modify
	N        int    // byte count for Read/Write
}

// Inject tells the shim to fail a call instead of (or, for Write, part way
// through) performing it.
type Inject struct {
	Errno syscall.Errno
	Short int // Write only: number of bytes really written before failing (-1: none)
}

// Seam is implemented by the harness.
type Seam interface {
	Before(c *Call) *Inject
	After(c *Call, err error)
}

// Stamper is an optional part of a seam: the instant to put on a file that is
// written through a handle. The shim stamps through the descriptor, so the
// time lands on the file that was written even when another request has
// renamed it (or its collection) since it was opened.
type Stamper interface {
	StampTime() (time.Time, bool)
}

func (f *File) stamp() {
	if f == nil || !f.writable || f.f == nil {
		return
	}
	if s, ok := Hook.(Stamper); ok {
		if now, ok := s.StampTime(); ok {
			realos.Chtimes("/proc/self/fd/"+strconv.Itoa(int(f.f.Fd())), now, now)
		}
	}
}

// Hook is the installed seam; nil means plain pass-through. It is set by the
// harness before any task of a run starts and cleared after the run.
var Hook Seam

func before(c *Call) *Inject {
	if h := Hook; h != nil {
		return h.Before(c)
	}
	return nil
}

func after(c *Call, err error) {
	if h := Hook; h != nil {
		h.After(c, err)
	}
}

func pathErr(c *Call, e syscall.Errno) error {
	return &fs.PathError{Op: c.Op, Path: c.Path, Err: e}
}

func linkErr(c *Call, e syscall.Errno) error {
	return &realos.LinkError{Op: c.Op, Old: c.Path, New: c.Path2, Err: e}
}

// ---- re-exports -----------------------------------------------------------

type (
	DirEntry     = realos.DirEntry
	FileInfo     = realos.FileInfo
	FileMode     = realos.FileMode
	LinkError    = realos.LinkError
	PathError    = realos.PathError
	ProcAttr     = realos.ProcAttr
	Process      = realos.Process
	ProcessState = realos.ProcessState
	Signal       = realos.Signal
	SyscallError = realos.SyscallError
)

const (
	DevNull           = realos.DevNull
	ModeAppend        = realos.ModeAppend
	ModeCharDevice    = realos.ModeCharDevice
	ModeDevice        = realos.ModeDevice
	ModeDir           = realos.ModeDir
	ModeExclusive     = realos.ModeExclusive
	ModeIrregular     = realos.ModeIrregular
	ModeNamedPipe     = realos.ModeNamedPipe
	ModePerm          = realos.ModePerm
	ModeSetgid        = realos.ModeSetgid
	ModeSetuid        = realos.ModeSetuid
	ModeSocket        = realos.ModeSocket
	ModeSticky        = realos.ModeSticky
	ModeSymlink       = realos.ModeSymlink
	ModeTemporary     = realos.ModeTemporary
	ModeType          = realos.ModeType
	O_APPEND          = realos.O_APPEND
	O_CREATE          = realos.O_CREATE
	O_EXCL            = realos.O_EXCL
	O_RDONLY          = realos.O_RDONLY
	O_RDWR            = realos.O_RDWR
	O_SYNC            = realos.O_SYNC
	O_TRUNC           = realos.O_TRUNC
	O_WRONLY          = realos.O_WRONLY
	PathListSeparator = realos.PathListSeparator
	PathSeparator     = realos.PathSeparator
	SEEK_CUR          = realos.SEEK_CUR
	SEEK_END          = realos.SEEK_END
	SEEK_SET          = realos.SEEK_SET
)

var (
	Args                = realos.Args
	ErrClosed           = realos.ErrClosed
	ErrDeadlineExceeded = realos.ErrDeadlineExceeded
	ErrExist            = realos.ErrExist
	ErrInvalid          = realos.ErrInvalid
	ErrNoDeadline       = realos.ErrNoDeadline
	ErrNoHandle         = realos.ErrNoHandle
	ErrNotExist         = realos.ErrNotExist
	ErrPermission       = realos.ErrPermission
	ErrProcessDone      = realos.ErrProcessDone
	Interrupt           = realos.Interrupt
	Kill                = realos.Kill
)

// Functions that do not touch the file system by path.
var (
	Clearenv        = realos.Clearenv
	Environ         = realos.Environ
	Executable      = realos.Executable
	Exit            = realos.Exit
	Expand          = realos.Expand
	ExpandEnv       = realos.ExpandEnv
	FindProcess     = realos.FindProcess
	Getegid         = realos.Getegid
	Getenv          = realos.Getenv
	Geteuid         = realos.Geteuid
	Getgid          = realos.Getgid
	Getgroups       = realos.Getgroups
	Getpagesize     = realos.Getpagesize
	Getpid          = realos.Getpid
	Getppid         = realos.Getppid
	Getuid          = realos.Getuid
	Getwd           = realos.Getwd
	Hostname        = realos.Hostname
	IsExist         = realos.IsExist
	IsNotExist      = realos.IsNotExist
	IsPathSeparator = realos.IsPathSeparator
	IsPermission    = realos.IsPermission
	IsTimeout       = realos.IsTimeout
	LookupEnv       = realos.LookupEnv
	NewSyscallError = realos.NewSyscallError
	SameFile        = realos.SameFile
	Setenv          = realos.Setenv
	StartProcess    = realos.StartProcess
	TempDir         = realos.TempDir
	Unsetenv        = realos.Unsetenv
	UserCacheDir    = realos.UserCacheDir
	UserConfigDir   = realos.UserConfigDir
	UserHomeDir     = realos.UserHomeDir
)

// Not provided on purpose (a library change that starts using them fails the
// harness build, which is reported as build trouble, exit 2): Chdir, CopyFS,
// DirFS, NewFile, OpenInRoot, OpenRoot, Root, Pipe, Stdin, Stdout, Stderr.

// ---- interposed path functions -------------------------------------------

func simple(c *Call, real func() error) error {
	if inj := before(c); inj != nil {
		err := pathErr(c, inj.Errno)
		after(c, err)
		return err
	}
	err := real()
	after(c, err)
	return err
}

func Stat(name string) (FileInfo, error) {
	var fi FileInfo
	err := simple(&Call{Op: "stat", Fn: "Stat", Path: name}, func() (e error) { fi, e = realos.Stat(name); return })
	if err != nil {
		return nil, err
	}
	return fi, nil
}

func Lstat(name string) (FileInfo, error) {
	var fi FileInfo
	err := simple(&Call{Op: "lstat", Fn: "Lstat", Path: name}, func() (e error) { fi, e = realos.Lstat(name); return })
	if err != nil {
		return nil, err
	}
	return fi, nil
}

func Chmod(name string, mode FileMode) error {
	return simple(&Call{Op: "chmod", Fn: "Chmod", Path: name, Writable: true}, func() error { return realos.Chmod(name, mode) })
}

func Chown(name string, uid, gid int) error {
	return simple(&Call{Op: "chown", Fn: "Chown", Path: name, Writable: true}, func() error { return realos.Chown(name, uid, gid) })
}

func Lchown(name string, uid, gid int) error {
	return simple(&Call{Op: "lchown", Fn: "Lchown", Path: name, Writable: true}, func() error { return realos.Lchown(name, uid, gid) })
}

func Chtimes(name string, atime, mtime time.Time) error {
	return simple(&Call{Op: "chtimes", Fn: "Chtimes", Path: name, Writable: true}, func() error { return realos.Chtimes(name, atime, mtime) })
}

func Truncate(name string, size int64) error {
	return simple(&Call{Op: "truncate", Fn: "Truncate", Path: name, Writable: true}, func() error { return realos.Truncate(name, size) })
}

func Mkdir(name string, perm FileMode) error {
	return simple(&Call{Op: "mkdir", Fn: "Mkdir", Path: name, Writable: true}, func() error { return realos.Mkdir(name, perm) })
}

func MkdirAll(path string, perm FileMode) error {
	return simple(&Call{Op: "mkdir", Fn: "MkdirAll", Path: path, Writable: true}, func() error { return realos.MkdirAll(path, perm) })
}

func MkdirTemp(dir, pattern string) (string, error) {
	if dir == "" {
		dir = realos.TempDir()
	}
	var name string
	c := &Call{Op: "mkdir", Fn: "MkdirTemp", Path: dir + string(PathSeparator) + pattern, Writable: true}
	if inj := before(c); inj != nil {
		err := pathErr(c, inj.Errno)
		after(c, err)
		return "", err
	}
	name, err := realos.MkdirTemp(dir, pattern)
	if err == nil {
		c.Path = name
	}
	after(c, err)
	return name, err
}

func Remove(name string) error {
	return simple(&Call{Op: "remove", Fn: "Remove", Path: name, Writable: true}, func() error { return realos.Remove(name) })
}

func RemoveAll(path string) error {
	return simple(&Call{Op: "unlinkat", Fn: "RemoveAll", Path: path, Writable: true}, func() error { return realos.RemoveAll(path) })
}

func Readlink(name string) (string, error) {
	var s string
	err := simple(&Call{Op: "readlink", Fn: "Readlink", Path: name}, func() (e error) { s, e = realos.Readlink(name); return })
	return s, err
}

func two(c *Call, real func() error) error {
	if inj := before(c); inj != nil {
		err := linkErr(c, inj.Errno)
		after(c, err)
		return err
	}
	err := real()
	after(c, err)
	return err
}

func Rename(oldpath, newpath string) error {
	return two(&Call{Op: "rename", Fn: "Rename", Path: oldpath, Path2: newpath, Writable: true}, func() error { return realos.Rename(oldpath, newpath) })
}

func Link(oldname, newname string) error {
	return two(&Call{Op: "link", Fn: "Link", Path: oldname, Path2: newname, Writable: true}, func() error { return realos.Link(oldname, newname) })
}

func Symlink(oldname, newname string) error {
	// oldname is link content, not a path that is accessed; the monitor still
	// sees it as Path2-less content. Only newname is created.
	c := &Call{Op: "symlink", Fn: "Symlink", Path: newname, Writable: true}
	if inj := before(c); inj != nil {
		err := &realos.LinkError{Op: "symlink", Old: oldname, New: newname, Err: inj.Errno}
		after(c, err)
		return err
	}
	err := realos.Symlink(oldname, newname)
	after(c, err)
	return err
}

// ---- files ---------------------------------------------------------------

// File wraps *os.File so that reads, writes and closes are seam calls too.
type File struct {
	f        *realos.File
	name     string
	writable bool
}

func writableFlag(flag int) bool {
	return flag&(O_WRONLY|O_RDWR|O_APPEND|O_CREATE|O_TRUNC) != 0
}

func OpenFile(name string, flag int, perm FileMode) (*File, error) {
	c := &Call{Op: "open", Fn: "OpenFile", Path: name, Flag: flag, Writable: writableFlag(flag)}
	if inj := before(c); inj != nil {
		err := pathErr(c, inj.Errno)
		after(c, err)
		return nil, err
	}
	f, err := realos.OpenFile(name, flag, perm)
	after(c, err)
	if err != nil {
		return nil, err
	}
	return &File{f: f, name: name, writable: c.Writable}, nil
}

func Open(name string) (*File, error) { return OpenFile(name, O_RDONLY, 0) }

func Create(name string) (*File, error) {
	return OpenFile(name, O_RDWR|O_CREATE|O_TRUNC, 0666)
}

func CreateTemp(dir, pattern string) (*File, error) {
	if dir == "" {
		dir = realos.TempDir()
	}
	c := &Call{Op: "open", Fn: "CreateTemp", Path: dir + string(PathSeparator) + pattern, Flag: O_RDWR | O_CREATE | O_EXCL, Writable: true}
	if inj := before(c); inj != nil {
		err := pathErr(c, inj.Errno)
		after(c, err)
		return nil, err
	}
	f, err := realos.CreateTemp(dir, pattern)
	if err == nil {
		c.Path = f.Name()
	}
	after(c, err)
	if err != nil {
		return nil, err
	}
	return &File{f: f, name: f.Name(), writable: true}, nil
}

func ReadFile(name string) ([]byte, error) {
	f, err := Open(name)
	if err != nil {
		return nil, err
	}
	defer f.Close()
	return io.ReadAll(f)
}

func WriteFile(name string, data []byte, perm FileMode) error {
	f, err := OpenFile(name, O_WRONLY|O_CREATE|O_TRUNC, perm)
	if err != nil {
		return err
	}
	_, err = f.Write(data)
	if err1 := f.Close(); err1 != nil && err == nil {
		err = err1
	}
	return err
}

func ReadDir(name string) ([]DirEntry, error) {
	f, err := Open(name)
	if err != nil {
		return nil, err
	}
	defer f.Close()
	ents, err := f.ReadDir(-1)
	sortEntries(ents)
	return ents, err
}

func sortEntries(ents []DirEntry) {
	for i := 1; i < len(ents); i++ {
		for j := i; j > 0 && ents[j-1].Name() > ents[j].Name(); j-- {
			ents[j-1], ents[j] = ents[j], ents[j-1]
		}
	}
}

func (f *File) call(op, fn string, n int) *Call {
	return &Call{Op: op, Fn: fn, Path: f.name, Writable: f.writable, N: n}
}

func (f *File) Name() string { return f.name }
func (f *File) Fd() uintptr  { return f.f.Fd() }

func (f *File) Read(b []byte) (int, error) {
	if f == nil {
		return 0, ErrInvalid
	}
	c := f.call("read", "File.Read", len(b))
	if inj := before(c); inj != nil {
		err := pathErr(c, inj.Errno)
		after(c, err)
		return 0, err
	}
	n, err := f.f.Read(b)
	c.N = n
	if err == io.EOF {
		after(c, nil)
	} else {
		after(c, err)
	}
	return n, err
}

func (f *File) ReadAt(b []byte, off int64) (int, error) {
	c := f.call("read", "File.ReadAt", len(b))
	if inj := before(c); inj != nil {
		err := pathErr(c, inj.Errno)
		after(c, err)
		return 0, err
	}
	n, err := f.f.ReadAt(b, off)
	c.N = n
	if err == io.EOF {
		after(c, nil)
	} else {
		after(c, err)
	}
	return n, err
}

func (f *File) Write(b []byte) (int, error) {
	if f == nil {
		return 0, ErrInvalid
	}
	c := f.call("write", "File.Write", len(b))
	if inj := before(c); inj != nil {
		n := 0
		if inj.Short > 0 {
			if inj.Short > len(b) {
				inj.Short = len(b)
			}
			n, _ = f.f.Write(b[:inj.Short])
			f.stamp()
		}
		c.N = n
		err := pathErr(c, inj.Errno)
		after(c, err)
		return n, err
	}
	n, err := f.f.Write(b)
	c.N = n
	if n > 0 {
		f.stamp()
	}
	after(c, err)
	return n, err
}

func (f *File) WriteAt(b []byte, off int64) (int, error) {
	c := f.call("write", "File.WriteAt", len(b))
	if inj := before(c); inj != nil {
		err := pathErr(c, inj.Errno)
		after(c, err)
		return 0, err
	}
	n, err := f.f.WriteAt(b, off)
	c.N = n
	if n > 0 {
		f.stamp()
	}
	after(c, err)
	return n, err
}

func (f *File) WriteString(s string) (int, error) { return f.Write([]byte(s)) }

type onlyWriter struct{ io.Writer }
type onlyReader struct{ io.Reader }

// ReadFrom and WriteTo go through the chunked Write/Read above so that every
// chunk stays a seam call (the real ones would use copy_file_range/splice).
func (f *File) ReadFrom(r io.Reader) (int64, error) { return io.Copy(onlyWriter{f}, r) }
func (f *File) WriteTo(w io.Writer) (int64, error)  { return io.Copy(w, onlyReader{f}) }

func (f *File) Seek(offset int64, whence int) (int64, error) { return f.f.Seek(offset, whence) }

func (f *File) Close() error {
	if f == nil {
		return ErrInvalid
	}
	c := f.call("close", "File.Close", 0)
	if inj := before(c); inj != nil {
		// a failing close still releases the descriptor, as on Linux
		f.f.Close()
		err := pathErr(c, inj.Errno)
		after(c, err)
		return err
	}
	err := f.f.Close()
	after(c, err)
	return err
}

func (f *File) Stat() (FileInfo, error) {
	c := f.call("stat", "File.Stat", 0)
	if inj := before(c); inj != nil {
		err := pathErr(c, inj.Errno)
		after(c, err)
		return nil, err
	}
	fi, err := f.f.Stat()
	after(c, err)
	return fi, err
}

func (f *File) Sync() error {
	return simple(f.call("sync", "File.Sync", 0), func() error { return f.f.Sync() })
}

func (f *File) Truncate(size int64) error {
	return simple(f.call("truncate", "File.Truncate", 0), func() error { return f.f.Truncate(size) })
}

func (f *File) Chmod(mode FileMode) error {
	return simple(f.call("chmod", "File.Chmod", 0), func() error { return f.f.Chmod(mode) })
}

func (f *File) Chown(uid, gid int) error {
	return simple(f.call("chown", "File.Chown", 0), func() error { return f.f.Chown(uid, gid) })
}

func (f *File) ReadDir(n int) ([]DirEntry, error) {
	c := f.call("readdirent", "File.ReadDir", 0)
	if inj := before(c); inj != nil {
		err := pathErr(c, inj.Errno)
		after(c, err)
		return nil, err
	}
	ents, err := f.f.ReadDir(n)
	if err == io.EOF {
		after(c, nil)
	} else {
		after(c, err)
	}
	return ents, err
}

func (f *File) Readdir(n int) ([]FileInfo, error) {
	c := f.call("readdirent", "File.Readdir", 0)
	if inj := before(c); inj != nil {
		err := pathErr(c, inj.Errno)
		after(c, err)
		return nil, err
	}
	fis, err := f.f.Readdir(n)
	if err == io.EOF {
		after(c, nil)
	} else {
		after(c, err)
	}
	return fis, err
}

func (f *File) Readdirnames(n int) ([]string, error) {
	c := f.call("readdirent", "File.Readdirnames", 0)
	if inj := before(c); inj != nil {
		err := pathErr(c, inj.Errno)
		after(c, err)
		return nil, err
	}
	names, err := f.f.Readdirnames(n)
	if err == io.EOF {
		after(c, nil)
	} else {
		after(c, err)
	}
	return names, err
}

func (f *File) SetDeadline(t time.Time) error         { return f.f.SetDeadline(t) }
func (f *File) SetReadDeadline(t time.Time) error     { return f.f.SetReadDeadline(t) }
func (f *File) SetWriteDeadline(t time.Time) error    { return f.f.SetWriteDeadline(t) }
func (f *File) SyscallConn() (syscall.RawConn, error) { return f.f.SyscallConn() }
