# Per-property configuration of the checks: engine, tier budgets, and the
# descriptive parts of the evidence files (rule, real/stub table, assumptions).

WD_REAL = {
    "real": ["webdav.Handler", "internal.Handler and every XML/HTTP codec of go-webdav", "webdav.LocalFileSystem",
             "kernel tmpfs semantics (errno values come from the kernel)", "net/http request parsing (http.ReadRequest) and httptest.ResponseRecorder"],
    "stub": ["the wire: requests are parsed from the bytes a client would send and handed to ServeHTTP in-process",
             "file modification times are stamped from the simulator's fake clock at the disk seam",
             "the physical medium (no crash / torn-sector model: no property quantifies over crash points)"],
}

COMMON_ASSUME = [
    "go1.26.8 testing/synctest provides the fake clock and deadlock detection",
    "the scratch copy differs from /repo only in the import paths of os, path/filepath and io/ioutil",
    "a clean batch is evidence, not proof: seeded sampling of histories and fault placements",
]

PROPS = {
    "C01": {
        "engine": "wdsim", "level": "exploration",
        "quick": {"max_runs": 100000000, "budget_s": 40, "recheck": 25},
        "thorough": {"max_runs": 1000000000, "budget_s": 900, "recheck": 50},
        "rule": "one evaluation = one seeded run: a multi-client sequential history of 3-40 requests against webdav.Handler{LocalFileSystem} on tmpfs, every response and the on-disk tree compared with the RFC 4918 resource-tree model after each request. Non-trivial and distinct = distinct (abstract tree shape = number of collections and files per depth, request class) pairs in which the request addressed an existing resource or changed the tree (the per-worker set saturates at 250000 entries: a lower bound beyond that).",
        "real_vs_stub": WD_REAL,
        "assumptions": COMMON_ASSUME + ["where the RFC leaves a choice (several refusal reasons at once, 200 vs 204, root as target, letter case of Depth/Overwrite) the model accepts every allowed answer"],
    },
    "C17": {
        "engine": "wdsim", "level": "exploration",
        "quick": {"max_runs": 100000000, "budget_s": 40, "recheck": 25},
        "thorough": {"max_runs": 1000000000, "budget_s": 900, "recheck": 50},
        "rule": "one evaluation = one seeded run; every response (all header names/values and the full body) is searched for the absolute path of the served root, its symlink-resolved form and the sandbox path. Non-trivial and distinct = distinct (request class) of requests answered >= 400 (an error text was produced).",
        "real_vs_stub": WD_REAL,
        "assumptions": COMMON_ASSUME,
    },
}

PROPS["C02"] = {
    "engine": "wdsim", "level": "fault_enumeration",
    "quick": {"max_runs": 100000000, "budget_s": 40, "recheck": 25},
    "thorough": {"max_runs": 1000000000, "budget_s": 900, "recheck": 50},
    "rule": "one evaluation = one seeded run of one of four profiles: (1) histories biased to refused requests incl. failing If-Match/If-None-Match, (2) histories in which every PUT body stream breaks at a seeded offset (0, len, io.Copy buffer edges forced) with unexpected-EOF / custom error / context cancellation under several chunkings, (3) histories with one injected disk error (errno kinds, short write+ENOSPC) at a seeded seam-call ordinal, (4) one small upload cut at EVERY offset 0..len with every kind. Oracle: on-disk snapshot before == after whenever status >= 400 (old-or-new, never torn, under disk faults). Non-trivial and distinct = distinct request classes answered >= 400 while a pre-existing resource sat at the target or destination.",
    "real_vs_stub": WD_REAL,
    "assumptions": COMMON_ASSUME + ["under injected disk errors only PUT is held to old-or-new atomicity; COPY/MOVE/DELETE/MKCOL only to 'nothing outside the addressed subtrees changes' (the property's quantifier does not include disk faults)"],
}
PROPS["C03"] = {
    "engine": "wdsim", "level": "exploration",
    "quick": {"max_runs": 100000000, "budget_s": 40, "recheck": 25},
    "thorough": {"max_runs": 1000000000, "budget_s": 900, "recheck": 50},
    "rule": "one evaluation = one seeded run: a history whose request-targets and Destination values come from a traversal grammar (dot-dot, encoded dots/slashes/backslashes, NUL, overlong UTF-8, <root>-evil prefix twins, absolute host paths of canaries, very long segments, absolute-URL and //authority forms, random percent-encoded bytes) crossed with every method, against a root nested in a sandbox with canaries next to and above it. Monitors: every path argument of every disk-seam call lies under the root; canaries and the outside listing unchanged; hrefs inside the namespace and addressing what they describe; unmappable paths (NUL) answered 4xx. Non-trivial and distinct = distinct (method, channel, set of traversal devices used: dot-dot, encoded dots/slashes, backslash, NUL, prefix twin, sibling, authority form, absolute host path, ...) whose request reached the disk seam.",
    "real_vs_stub": WD_REAL,
    "assumptions": COMMON_ASSUME + ["calls whose path leaves the sandbox are blocked at the seam (and reported) so a breach can never touch the host", "no symlinks inside the served tree (WebDAV cannot create them)"],
}
PROPS["C04"] = {
    "engine": "wdsim", "level": "exploration",
    "quick": {"max_runs": 100000000, "budget_s": 40, "recheck": 25},
    "thorough": {"max_runs": 1000000000, "budget_s": 900, "recheck": 50},
    "rule": "one evaluation = one seeded run: 2-4 client nodes, few files, conditional PUT/DELETE with If-Match / If-None-Match in {unset, *, current tag, stale tag, tag of another resource, well-formed unknown, malformed} (tags resolved at run time from what the server announced; a HEAD probe before each conditional request makes the truth table decidable) against absent/file/collection targets, interleaved with unconditional writes by other clients that make remembered tags stale. Oracle: model truth table -> carried out (tree as in C01) or 412/400 with the tree unchanged; one tag string per unmodified version across PUT/GET/HEAD/PROPFIND; webdav.ConditionalMatch helpers compared with the statement. Non-trivial and distinct = distinct conditional request classes (method, target kind, If-Match class, If-None-Match class).",
    "real_vs_stub": WD_REAL,
    "assumptions": COMMON_ASSUME + ["one request in flight at a time (the property does not quantify over overlapping requests on one resource)", "the CalDAV/CardDAV pass-through clause is checked in davsim (C13 runs) by raw PUTs against recording backends"],
}

PROPS["C05"] = {
    "engine": "wdsim", "level": "exploration",
    "quick": {"max_runs": 100000000, "budget_s": 40, "recheck": 25},
    "thorough": {"max_runs": 1000000000, "budget_s": 900, "recheck": 50},
    "rule": "one evaluation = one seeded run: 3-30 calls of the public webdav.Client API (Stat, ReadDir both recursion modes, Open, Create+Write...+Close with seeded chunking, Mkdir, RemoveAll, Copy/Move with every option combination incl. nil options) through the simulated transport against the real handler and either LocalFileSystem on the disk seam or a recording in-memory FileSystem with exotic metadata; endpoints with and without path prefix / trailing slash / userinfo, names relative and absolute with special characters. Oracle: after each call the backend itself is asked (FileSystem.Stat/ReadDir/Open) and path, kind, size, mtime to the second, content type, tag and bytes must be equal; requests must be addressed to the resolved names with the requested options (wire headers and recorded backend arguments); every HTTP exchange is also judged by the C01 model (store A). Non-trivial and distinct = distinct (API function, outcome kind, character classes of the name, store, endpoint) with a successful, compared result.",
    "real_vs_stub": {
        "real": ["webdav.Client incl. the upload goroutine and io.Pipe of Create", "net/http.Client (redirect logic) above the simulated RoundTripper", "webdav.Handler, internal codecs", "webdav.LocalFileSystem on tmpfs (store A)"],
        "stub": ["the wire (RoundTripper re-parses the request bytes with http.ReadRequest and calls ServeHTTP in-process)", "store B: in-memory recording FileSystem written for the harness", "file modification times from the fake clock (store A)"],
    },
    "assumptions": COMMON_ASSUME + ["names are sampled from alphabets of special characters, not all strings (the claim is partial in that respect)", "for collections only path and kind are compared: the server exposes no size/time/tag for collections"],
}

PROPS["C18"] = {
    "engine": "wdsim", "level": "exploration", "race": True, "vary_gomaxprocs": True,
    "quick": {"max_runs": 100000000, "budget_s": 50, "recheck": 20, "calibration_runs": 32},
    "thorough": {"max_runs": 1000000000, "budget_s": 900, "round_s": 75, "recheck": 40, "calibration_runs": 64},
    "rule": "one evaluation = one seeded run of one of two profiles, built with -race. (1) concurrent: 2-6 caller tasks x 3-20 operations (all webdav.Client methods and raw requests) on disjoint subtrees of ONE shared webdav.Handler{LocalFileSystem} and ONE shared webdav.Client; a seeded scheduler (unique fake wake-up instants at every seam: transport entry/return, each body chunk, each disk call, each caller step) decides every interleaving; oracle: per-task observations and final subtree == the task's solo run, no race report with a library frame; a calibration probe (deliberately racy word) must be reported in >= 80% of dedicated runs. (2) upload: Create/Write.../Close against a scripted or the real server: server reads k bytes then answers 2xx/3xx/4xx/5xx, drops or stalls; body closed before return or asynchronously; cancellation/deadline before Create, during the upload, while stalled, or never; oracle: Write/Close return, Close after the outcome, nil iff 2xx else the failure (status via errors.As, DAV:error kept, transport/context error wrapped), no library goroutine left, bytes intact. Non-trivial and distinct = distinct cross-task seam orders (profile 1) plus distinct (fault class, size bucket, chunking) upload cases (profile 2).",
    "real_vs_stub": {
        "real": ["webdav.Client (shared), its upload goroutine, io.Pipe and completion channel", "net/http.Client above the simulated RoundTripper", "webdav.Handler (shared), LocalFileSystem on tmpfs", "Go race detector on all of the above"],
        "stub": ["the wire (in-process RoundTripper honouring the RoundTripper contract: always closes the body, before or after returning; honours the context)", "the scripted server of the upload profile", "goroutine scheduling between seams is Go's own: the simulator decides the order of seam events, the race detector covers what happens between them"],
    },
    "assumptions": COMMON_ASSUME + ["logical interference that needs a preemption between two non-seam instructions of one request is out of reach (data races there are still reported)", "tasks are serialised by fake-time sleeps only, which create no happens-before edge for the race detector (measured per batch by the calibration probe)", "mode N (real net/http over simulated connections) is not built; the RoundTripper contract is modelled by the stub"],
}

DAV_REAL = {
    "real": ["caldav.Handler, carddav.Handler, webdav.Handler, webdav.ServePrincipal and every decoder behind them (encoding/xml structs, go-ical, go-vcard)", "net/http request parsing (http.ReadRequest) and httptest.ResponseRecorder", "LocalFileSystem on tmpfs for the webdav-local server"],
    "stub": ["the wire (requests parsed from bytes and handed to ServeHTTP in-process)", "storage: recording in-memory caldav.Backend / carddav.Backend / webdav.FileSystem doubles that fail the j-th call of a request on demand"],
}
PROPS["C13"] = {
    "engine": "wdsim", "level": "fault_enumeration",
    "quick": {"max_runs": 100000000, "budget_s": 40, "recheck": 25},
    "thorough": {"max_runs": 1000000000, "budget_s": 900, "recheck": 50},
    "rule": "one evaluation = one seeded run against one of five servers (caldav, carddav, file server on the in-memory store, file server on LocalFileSystem, principal helper) under a seeded mount prefix: 3-12 valid exchanges (PROPFIND all depths and levels, PROPPATCH, MKCOL with and without body, REPORT calendar-query / calendar-multiget / addressbook-query / addressbook-multiget, PUT of iCalendar / vCard / files, GET/HEAD/DELETE/OPTIONS/COPY/MOVE), each of which may meet one fault: the request stream cut at a seeded, structural or (profile dav-every-offset) EVERY offset with a clean EOF or a read error / cancellation under several chunkings; the j-th backend call failing with an HTTP status error, a precondition error, a plain error or context.Canceled; the j-th disk call failing with an errno; an invalid Depth/Overwrite/Destination value; or replacement by one of 39 hand-written malformed documents (mutually exclusive elements, invalid enumeration values, dates, limits, wrong roots, unparseable bodies, invalid Content-Type). Oracle: no panic, complete response (a 207 parses), malformed -> 4xx (never 2xx/5xx) and no create/update/delete call recorded by the backend. Non-trivial and distinct = distinct (server, method, template, fault class) where the fault fired; cut positions bucketed in tenths of the document.",
    "real_vs_stub": DAV_REAL,
    "assumptions": COMMON_ASSUME + ["partial: structure-aware mutation of documents (element deletion/duplication/renaming, namespace swaps, attribute corruption, random bytes) is input-space search outside this technique; only stream cuts, dependency faults, header value sets and a fixed list of malformed documents are decided", "how a backend failure maps to a status is not part of the statement: counted, not judged"],
}

PROPS["C14"] = {
    "engine": "wdsim", "level": "fault_enumeration",
    "quick": {"max_runs": 100000000, "budget_s": 40, "recheck": 25},
    "thorough": {"max_runs": 1000000000, "budget_s": 900, "recheck": 50},
    "rule": "one evaluation = one seeded run: 3-14 calls of the public client methods (webdav: FindCurrentUserPrincipal, Stat, ReadDir, Open, Create/Write/Close, RemoveAll, Mkdir, Copy, Move; caldav: FindCalendarHomeSet, FindCalendars, QueryCalendar, MultiGetCalendar, GetCalendarObject, PutCalendarObject; carddav: HasSupport, FindAddressBookHomeSet, FindAddressBooks, QueryAddressBook, MultiGetAddressBook, GetAddressObject, PutAddressObject, SyncCollection) against the real handlers over recording backends (a scripted RFC 6578 responder for sync-collection), while the transport does one of: replace the status by a code of 100-599 with seven body/content-type kinds (empty, text, long text, DAV:error, garbage XML, HTML, original body); cut the response body at an offset with a clean EOF or a read error; fail the round trip before or after the request was applied; stall until a cancellation on the fake clock; rewrite the real multi-status so that one resource (response status) or one property (own propstat, with or without a value left in it) fails with 403/404/423/424/500/507/1xx/3xx; drop or falsify Content-Type; make the j-th backend call fail. Profile client-every-offset-and-status enumerates every cut offset 0..1500 or every status 100..599 for one call. Oracle: returns (no panic, no bubble deadlock); error iff the delivered answer is not 2xx / not 207 where required / cut inside the document / carries a failed member; the error carries the status (errors.As *internal.HTTPError), the DAV:error condition, or wraps the transport/context error; a failed member never shows up as data (sync-collection: 404 -> deleted). Non-trivial and distinct = distinct (client method, fault class, delivered status class / cut position class / rewritten status, class of the real answer).",
    "real_vs_stub": {
        "real": ["webdav.Client, caldav.Client, carddav.Client and internal.Client incl. every response decoder", "net/http.Client (redirects) above the simulated RoundTripper", "the real handlers producing the undisturbed answers"],
        "stub": ["the wire (in-process RoundTripper that applies the fault plan)", "storage doubles", "the sync-collection responder"],
    },
    "assumptions": COMMON_ASSUME + ["partial: arbitrary mutation of multi-status documents is not claimed; only status placement on a response or a propstat of real documents, cuts, and whole-response replacement are decided", "for a status replaced by another 2xx code only the 207 rule is judged (what else the body must look like is the server's business)"],
}

MANIFEST_TEXT = {
    "C01": {
        "technique": "deterministic simulation: seeded multi-client request histories (with broken uploads, cancelled contexts and clients that hang up mid-answer in a share of the runs) against the real handler and LocalFileSystem on a simulated disk seam, refinement-checked step by step against an executable RFC 4918 resource-tree model",
        "level_text": "Seeded exploration of request histories (3-40 requests, trees up to ~24 nodes plus, in a share of the runs, chains of 50-400 nested collections, special-character names, spelling variants of paths) with a step-by-step refinement oracle: status, entity headers, body, multi-status content and the on-disk tree must equal what the reference model allows. Sampling, not enumeration: the right level for a claim over unbounded histories of a persistent store.",
        "design_ref": "DESIGN.md section 3 / C01, appendix A",
        "level_note": "Trusted: the reference model (written from RFC 4918/3986 and the property text), net/http's request parser, tmpfs. Names are sampled from alphabets; requests in flight one at a time.",
    },
    "C02": {
        "technique": "deterministic simulation with fault injection: request-body stream faults at seeded and at every byte offset, context cancellation, injected disk errors at seeded system-call ordinals, and refusal-biased histories; on-disk snapshot before/after every request; overlapped schedules in which an upload stalls in its body stream while other requests are served and then fails",
        "level_text": "Fault enumeration: for small uploads every cut offset x error kind is executed (thorough and, in a share of runs, quick); larger uploads, disk-call ordinals and refusal histories are seeded samples. The oracle needs no model: bytes on disk before == after whenever the answer is >= 400; for an upload that fails after other requests were served during its stall, before == the tree before it plus what those acknowledged requests were observed to do (snapshots and inode numbers around each of them).",
        "design_ref": "DESIGN.md section 3 / C02",
        "level_note": "Trusted: tmpfs, the disk shim's error shaping. Disk-fault atomicity is demanded of PUT only (old-or-new, no stray names unless a remove call itself failed).",
    },
    "C03": {
        "technique": "deterministic simulation with fault injection: hostile-path histories, plus histories with injected disk errors, broken uploads, overlapped requests and a handler re-pointed at another directory, under a confinement monitor at the disk seam (every path argument of every os/filepath call), canary files, and multi-status href re-addressing",
        "level_text": "Seeded exploration of a traversal grammar crossed with all methods and both channels (request-target, Destination). The monitor sits where I/O effects are complete: a would-be read outside the root is caught before it reaches the kernel.",
        "design_ref": "DESIGN.md section 3 / C03",
        "level_note": "Trusted: the import rewrite reaches every os/filepath call of the library packages (a use of an API the shim lacks fails the build, exit 2).",
    },
    "C04": {
        "technique": "deterministic simulation: multi-client stale-tag histories (a share of the requests with their context cancelled before the handler or just before its k-th file-system call) against the real handler and LocalFileSystem with modification times from the fake clock, judged by the model's precondition truth table",
        "level_text": "Seeded exploration of histories in which a tag learned by one client goes stale because another wrote in between; the truth table (2 headers x 7 value classes x 3 resource states x 2 methods) is covered many times per batch and the tree is compared after every request.",
        "design_ref": "DESIGN.md section 3 / C04",
        "level_note": "Trusted: the model's reading of the statement's truth table; entity tags are opaque strings learned from announcements.",
    },
    "C05": {
        "technique": "deterministic simulation: real webdav.Client nodes (incl. the upload pipe and goroutine) over a simulated transport against the real handler and two stores; differential oracle that asks the backend itself after every call",
        "level_text": "Seeded exploration of API call sequences over two stores, six endpoint spellings and special-character names; every client result is compared with what the backend reports directly, every wire exchange with the C01 model. Partial: the universal quantification over all strings is sampled from alphabets.",
        "design_ref": "DESIGN.md section 3 / C05",
        "level_note": "Trusted: the harness's own name resolver (RFC 3986) and the in-memory store. Collections: only path and kind are compared.",
    },
    "C18": {
        "technique": "deterministic simulation under the race detector: seeded scheduling of concurrent caller tasks at every seam (unique fake-time wake-ups in a synctest bubble) with a solo-run differential oracle; fault-injected upload protocol runs (early answer, partial read, drop, stall + cancellation, asynchronous body close) with hang detection by bubble deadlock",
        "level_text": "Seeded exploration over schedules and fault sequences. Interleavings are chosen by the PRNG, not the Go scheduler, so a failure replays; 'never hangs' is decidable because a bubble deadlock is an event; the race detector still sees the tasks as unordered (calibrated every run).",
        "design_ref": "DESIGN.md section 3 / C18",
        "level_note": "Trusted: the stub transport's reading of the RoundTripper contract. Preemption is only controlled at seams. Race reports are detected once per process and replayed in fresh processes.",
    },
    "C13": {
        "technique": "deterministic simulation with fault injection: request-stream cuts at seeded, structural and every offset (clean EOF, read error, cancellation), failing backend/disk calls at every ordinal reached, invalid header values and a fixed list of malformed documents against the real CalDAV/CardDAV/WebDAV/principal handlers over recording backend doubles",
        "level_text": "Fault enumeration over the stream and dependency seams of every body-carrying request kind; every-offset enumeration for documents up to 2 KiB. Partial by design: arbitrary structure-aware mutation of documents is not a schedule or a fault and is not claimed.",
        "design_ref": "DESIGN.md section 3 / C13",
        "level_note": "Trusted: the backend doubles; 'document end' offsets of the templates. The C04 clause about conditional headers reaching CalDAV/CardDAV backends unaltered is checked on the same exchanges (profile dav-passthrough of C04).",
    },
    "C14": {
        "technique": "deterministic simulation with fault injection at the transport seam: every public client method against the real handlers while the response is replaced (every status 100-599 x body kinds), cut at every offset, dropped, stalled until a fake-clock cancellation, or has one member of its multi-status failed",
        "level_text": "Fault enumeration over the response stream: every status code and every cut offset for sampled calls (exhaustive sub-profile), seeded samples of all other fault placements across all 23 client methods. 'Never hangs' is decided by bubble deadlock detection, cancellation by the fake clock.",
        "design_ref": "DESIGN.md section 3 / C14",
        "level_note": "Trusted: the RoundTripper stub, the independent multi-status reader used to decide which members failed. Partial: no arbitrary document mutation.",
    },
    "C17": {
        "technique": "deterministic simulation with fault injection: every response of seeded histories - with OS error kinds injected at the disk seam, overlapped requests, hostile paths, and trees pushed across PATH_MAX by a MOVE - scanned for the host path",
        "level_text": "Seeded exploration; the monitor sees every response byte of every run, and the disk seam supplies error kinds a healthy tmpfs never produces (EXDEV, EACCES, EIO, ENOSPC, ENAMETOOLONG...) shaped exactly as package os shapes them, with the real absolute path inside.",
        "design_ref": "DESIGN.md section 3 / C17",
        "level_note": "Trusted: error shaping of the disk shim mirrors package os (PathError/LinkError with op and path). The root directory has a distinctive name so a hit cannot be accidental.",
    },
}

NOT_APPLICABLE = [
    {"property_id": "C06", "reason": "caldav.Match/Filter is a pure, stateless function of (calendar object, filter); no schedule, clock, fault or history can change its result, so deterministic simulation has nothing to control"},
    {"property_id": "C07", "reason": "carddav.Match/Filter is a pure function of (vCard, query) including limit and projection; nothing to simulate"},
    {"property_id": "C08", "reason": "encoding one query value and decoding one document are pure; the needed oracle is an independent RFC reader/writer (differential input testing), a simulated transport would carry the bytes unchanged"},
    {"property_id": "C09", "reason": "same as C08 for CardDAV: pure encode/decode of one value"},
    {"property_id": "C10", "reason": "handlers and clients are stateless translators of a backend snapshot; every call is a pure function of (snapshot, request). The fault-related sliver (per-href backend failure) is exercised under C14"},
    {"property_id": "C11", "reason": "PROPFIND accounting is a pure function of (backend snapshot, request); the file server's Depth scope is compared with the model under C01 as a by-product, the per-property 200/404 accounting is not claimed"},
    {"property_id": "C12", "reason": "routing is arithmetic on path segments, a pure function of (prefix, path, method); the discovery chain is deterministic and stateless"},
    {"property_id": "C15", "reason": "RawXMLValue capture/replay is a pure function of a well-formed element tree"},
    {"property_id": "C16", "reason": "wire primitives are pure codecs; some are exercised end-to-end inside the simulation, which decides nothing about every value of their domains"},
    {"property_id": "C19", "reason": "ValidateCalendarObject is a pure function of a calendar"},
]
