# Per-property configuration of the checks: engine, tier budgets, and the
# descriptive parts of the evidence files (rule, real/stub table, assumptions).

WD_REAL = {
    "real": ["webdav.Handler", "internal.Handler and every XML/HTTP codec of go-webdav", "webdav.LocalFileSystem",
             "kernel tmpfs semantics (errno values come from the kernel)", "net/http request parsing (http.ReadRequest) and httptest.ResponseRecorder"],
    "stub": ["the wire: requests are parsed from the bytes a client would send and handed to ServeHTTP in-process",
             "file modification times are stamped from the simulator's fake clock at the disk seam",
             "the physical medium (no crash / torn-sector model: no property quantifies over crash points)"],
}

COMMON_ASSUME = [
    "go1.26.8 testing/synctest provides the fake clock and deadlock detection",
    "the scratch copy differs from /repo only in the import paths of os, path/filepath and io/ioutil",
    "a clean batch is evidence, not proof: seeded sampling of histories and fault placements",
]

PROPS = {
    "C01": {
        "engine": "wdsim", "level": "exploration",
        "quick": {"max_runs": 200000, "budget_s": 40, "recheck": 25},
        "thorough": {"max_runs": 5000000, "budget_s": 900, "recheck": 50},
        "rule": "one evaluation = one seeded run: a multi-client sequential history of 3-40 requests against webdav.Handler{LocalFileSystem} on tmpfs, every response and the on-disk tree compared with the RFC 4918 resource-tree model after each request. Non-trivial and distinct = distinct (abstract tree shape, request class) pairs in which the request addressed an existing resource or changed the tree.",
        "real_vs_stub": WD_REAL,
        "assumptions": COMMON_ASSUME + ["where the RFC leaves a choice (several refusal reasons at once, 200 vs 204, root as target, letter case of Depth/Overwrite) the model accepts every allowed answer"],
    },
    "C17": {
        "engine": "wdsim", "level": "exploration",
        "quick": {"max_runs": 200000, "budget_s": 40, "recheck": 25},
        "thorough": {"max_runs": 5000000, "budget_s": 900, "recheck": 50},
        "rule": "one evaluation = one seeded run; every response (all header names/values and the full body) is searched for the absolute path of the served root, its symlink-resolved form and the sandbox path. Non-trivial and distinct = distinct (request class) of requests answered >= 400 (an error text was produced).",
        "real_vs_stub": WD_REAL,
        "assumptions": COMMON_ASSUME,
    },
}

MANIFEST_TEXT = {
    "C01": {
        "technique": "deterministic simulation: seeded multi-client request histories against the real handler and LocalFileSystem on a simulated disk seam, refinement-checked step by step against an executable RFC 4918 resource-tree model",
        "level_text": "Seeded exploration of request histories (3-40 requests, trees up to ~24 nodes, special-character names, spelling variants of paths) with a step-by-step refinement oracle: status, entity headers, body, multi-status content and the on-disk tree must equal what the reference model allows. Sampling, not enumeration: the right level for a claim over unbounded histories of a persistent store.",
        "design_ref": "DESIGN.md section 3 / C01, appendix A",
        "level_note": "Trusted: the reference model (written from RFC 4918/3986 and the property text), net/http's request parser, tmpfs. Names are sampled from alphabets; requests in flight one at a time.",
    },
    "C17": {
        "technique": "deterministic simulation: every response of seeded histories, including histories with OS error kinds injected at the disk seam, scanned for the host path",
        "level_text": "Seeded exploration; the monitor sees every response byte of every run, and the disk seam supplies error kinds a healthy tmpfs never produces (EXDEV, EACCES, EIO, ENOSPC, ENAMETOOLONG...) shaped exactly as package os shapes them, with the real absolute path inside.",
        "design_ref": "DESIGN.md section 3 / C17",
        "level_note": "Trusted: error shaping of the disk shim mirrors package os (PathError/LinkError with op and path). The root directory has a distinctive name so a hit cannot be accidental.",
    },
}

NOT_APPLICABLE = [
    {"property_id": "C06", "reason": "caldav.Match/Filter is a pure, stateless function of (calendar object, filter); no schedule, clock, fault or history can change its result, so deterministic simulation has nothing to control"},
    {"property_id": "C07", "reason": "carddav.Match/Filter is a pure function of (vCard, query) including limit and projection; nothing to simulate"},
    {"property_id": "C08", "reason": "encoding one query value and decoding one document are pure; the needed oracle is an independent RFC reader/writer (differential input testing), a simulated transport would carry the bytes unchanged"},
    {"property_id": "C09", "reason": "same as C08 for CardDAV: pure encode/decode of one value"},
    {"property_id": "C10", "reason": "handlers and clients are stateless translators of a backend snapshot; every call is a pure function of (snapshot, request). The fault-related sliver (per-href backend failure) is exercised under C14"},
    {"property_id": "C11", "reason": "PROPFIND accounting is a pure function of (backend snapshot, request); the file server's Depth scope is compared with the model under C01 as a by-product, the per-property 200/404 accounting is not claimed"},
    {"property_id": "C12", "reason": "routing is arithmetic on path segments, a pure function of (prefix, path, method); the discovery chain is deterministic and stateless"},
    {"property_id": "C15", "reason": "RawXMLValue capture/replay is a pure function of a well-formed element tree"},
    {"property_id": "C16", "reason": "wire primitives are pure codecs; some are exercised end-to-end inside the simulation, which decides nothing about every value of their domains"},
    {"property_id": "C19", "reason": "ValidateCalendarObject is a pure function of a calendar"},
]
